package net

// C15 — prefix and address arithmetic matches the bit-level definitions.
// Bounded-exhaustive enumeration (engine E5): every length pair x every
// single-bit difference x base patterns, both families. The reference works on
// []bool bit strings only.

import (
	"fmt"
	"testing"

	"github.com/bio-routing/bio-rd/zzverif/vh"
)

type zvBits []bool

func zvPattern(kind int, w int) zvBits {
	b := make(zvBits, w)
	for i := range b {
		switch kind {
		case 0: // all zero
		case 1:
			b[i] = true
		case 2:
			b[i] = i%2 == 0
		case 3:
			b[i] = i%2 == 1
		case 4: // position coded: irregular but deterministic
			b[i] = (i*7+i/3+i/11)%3 == 0
		}
	}
	return b
}

func (b zvBits) ip() IP {
	if len(b) == 32 {
		var v uint32
		for i := 0; i < 32; i++ {
			v <<= 1
			if b[i] {
				v |= 1
			}
		}
		return IPv4(v)
	}
	var hi, lo uint64
	for i := 0; i < 64; i++ {
		hi <<= 1
		if b[i] {
			hi |= 1
		}
	}
	for i := 64; i < 128; i++ {
		lo <<= 1
		if b[i] {
			lo |= 1
		}
	}
	return IPv6(hi, lo)
}

func (b zvBits) masked(l int) zvBits {
	c := make(zvBits, len(b))
	copy(c, b[:l])
	return c
}

func (b zvBits) flip(pos int) zvBits { // pos 1-based, 0 = identical
	c := make(zvBits, len(b))
	copy(c, b)
	if pos > 0 {
		c[pos-1] = !c[pos-1]
	}
	return c
}

func (b zvBits) String() string {
	return b.ip().String()
}

func zvLCP(a, b zvBits, max int) int {
	n := 0
	for n < max && a[n] == b[n] {
		n++
	}
	return n
}

func zvCmp(a, b zvBits) int8 {
	for i := range a {
		if a[i] != b[i] {
			if a[i] {
				return 1
			}
			return -1
		}
	}
	return 0
}

func zvLenClass(l int) string {
	switch {
	case l == 0:
		return "0"
	case l <= 32:
		return "1-32"
	case l <= 64:
		return "33-64"
	case l == 65:
		return "65"
	default:
		return "66-128"
	}
}

type zvC15Case struct {
	Fam  int `json:"family"`
	Pat  int `json:"pattern"`
	LenA int `json:"len_a"`
	LenB int `json:"len_b"`
	Pos  int `json:"flip_pos"`
	// ordering cases: addresses differing in two bit positions (Pos and Pos2); Mode 0: base^Pos vs base^Pos2, 1: base vs base^Pos^Pos2
	Ord  bool `json:"ordering,omitempty"`
	Pos2 int  `json:"flip_pos2,omitempty"`
	Mode int  `json:"mode,omitempty"`
	// boundary address cases
	Bnd bool   `json:"boundary,omitempty"`
	Hi  uint64 `json:"hi,omitempty"`
	Lo  uint64 `json:"lo,omitempty"`
}

func zvC15Boundary(r *vh.Run, c zvC15Case) {
	ip := IPv6(c.Hi, c.Lo)
	if c.Fam == 4 {
		ip = IPv4(uint32(c.Lo))
	}
	r.Eval(1)
	back, err := IPFromString(ip.String())
	if err != nil || !back.Equal(ip) {
		cls := "other"
		if !ip.isLegacy && ip.higher == 0 && ip.lower>>32 == 0xffff {
			cls = "v4mapped"
		}
		r.Violation(vh.Sig("clause", "roundtrip_ip", "family", fmt.Sprint(c.Fam), "class", cls), c,
			"IPFromString(%q) = %v (isLegacy=%v) err=%v; want the same address back", ip.String(), back.String(), back.isLegacy, err)
	}
}

// zvC15Order checks address ordering for two addresses that differ in two bit positions (in particular one in each
// 64-bit half, ordered in opposite directions), in both argument orders.
func zvC15Order(r *vh.Run, c zvC15Case) {
	w := 32
	if c.Fam == 6 {
		w = 128
	}
	base := zvPattern(c.Pat, w)
	a, b := base.flip(c.Pos), base.flip(c.Pos2)
	if c.Mode == 1 {
		a, b = base, base.flip(c.Pos).flip(c.Pos2)
	}
	r.Eval(1)
	ai, bi := a.ip(), b.ip()
	for _, d := range []struct {
		x, y *IP
		want int8
	}{{&ai, &bi, zvCmp(a, b)}, {&bi, &ai, zvCmp(b, a)}} {
		if got := d.x.Compare(d.y); got != d.want {
			halves := "same_half"
			if (c.Pos <= 64) != (c.Pos2 <= 64) && w == 128 {
				halves = "both_halves"
			}
			r.Violation(vh.Sig("clause", "compare", "family", fmt.Sprint(c.Fam), "differ_in", halves), c, "%s.Compare(%s) = %d want %d", d.x.String(), d.y.String(), got, d.want)
		}
	}
	if w == 128 && (c.Pos <= 64) != (c.Pos2 <= 64) && a[c.Pos-1] != a[c.Pos2-1] {
		r.Count("compare_halves_opposed", 1)
	}
	r.Nontrivial(1)
}

func zvC15One(r *vh.Run, c zvC15Case) {
	w := 32
	if c.Fam == 6 {
		w = 128
	}
	fam := fmt.Sprint(c.Fam)
	base := zvPattern(c.Pat, w)
	other := base.flip(c.Pos)
	if c.Pos2 > 0 {
		other = other.flip(c.Pos2) // a second difference further right
	}
	abits, bbits := base.masked(c.LenA), other.masked(c.LenB)
	a := NewPfx(abits.ip(), uint8(c.LenA))
	b := NewPfx(bbits.ip(), uint8(c.LenB))
	r.Eval(1)

	// containment (equal lengths are deliberately not demanded)
	if c.LenA != c.LenB {
		want := c.LenB > c.LenA && zvLCP(abits, bbits, c.LenA) == c.LenA
		var got bool
		if p, what := vh.Try(func() { got = a.Contains(&b) }); p {
			r.Violation(vh.Sig("clause", "contains", "family", fam, "kind", "panic"), c, "Contains panicked: %s", what)
		} else if got != want {
			r.Violation(vh.Sig("clause", "contains", "family", fam, "pfxlen", zvLenClass(c.LenA), "want", fmt.Sprint(want)), c,
				"%s.Contains(%s) = %v, bit-level definition says %v", a.String(), b.String(), got, want)
		}
		if want {
			r.Count("contains_true", 1)
		} else if c.LenB > c.LenA {
			r.Count("contains_false_longer", 1)
		}
	}
	// equality
	{
		want := c.LenA == c.LenB && zvCmp(abits, bbits) == 0
		if got := a.Equal(&b); got != want {
			r.Violation(vh.Sig("clause", "equal", "family", fam), c, "%s.Equal(%s) = %v want %v", a.String(), b.String(), got, want)
		}
		if want {
			r.Count("equal_true", 1)
		}
	}
	// common supernet, for pairs where neither contains nor equals the other
	minLen := c.LenA
	if c.LenB < minLen {
		minLen = c.LenB
	}
	lcp := zvLCP(abits, bbits, minLen)
	if lcp < minLen {
		r.Count("supernet_checked", 1)
		wantBits := abits.masked(lcp)
		var got Prefix
		if p, what := vh.Try(func() { got = a.GetSupernet(&b) }); p {
			r.Violation(vh.Sig("clause", "supernet", "family", fam, "kind", "panic"), c, "GetSupernet panicked: %s", what)
		} else {
			want := NewPfx(wantBits.ip(), uint8(lcp))
			if !got.Equal(&want) {
				r.Violation(vh.Sig("clause", "supernet", "family", fam, "lcp", zvLenClass(lcp)), c,
					"%s.GetSupernet(%s) = %s, longest common prefix is %s", a.String(), b.String(), got.String(), want.String())
			}
		}
	}
	// address ordering
	{
		ai, bi := base.ip(), other.ip()
		want := zvCmp(base, other)
		if got := ai.Compare(&bi); got != want {
			r.Violation(vh.Sig("clause", "compare", "family", fam), c, "%s.Compare(%s) = %d want %d", ai.String(), bi.String(), got, want)
		}
		if want != 0 {
			r.Count("compare_nonzero", 1)
		}
	}
	if c.Pos > 0 && (c.Pos <= c.LenA || c.Pos <= c.LenB) {
		r.Nontrivial(1)
	}
}

// zvC15Single checks the single-prefix operations for (pattern, len) with the
// unmasked address: base address, validity, bit-at-position, round trips.
func zvC15Single(r *vh.Run, famN, pat, l, flip int) {
	w := 32
	if famN == 6 {
		w = 128
	}
	fam := fmt.Sprint(famN)
	bits := zvPattern(pat, w).flip(flip)
	c := zvC15Case{Fam: famN, Pat: pat, LenA: l, LenB: -1, Pos: flip}
	p := NewPfx(bits.ip(), uint8(l))
	r.Eval(1)
	wantBase := bits.masked(l).ip()
	if got := p.BaseAddr(); !got.Equal(wantBase) {
		r.Violation(vh.Sig("clause", "baseaddr", "family", fam, "pfxlen", zvLenClass(l)), c, "%s.BaseAddr() = %s want %s", p.String(), got.String(), wantBase.String())
	}
	wantValid := zvCmp(bits, bits.masked(l)) == 0
	if got := p.Valid(); got != wantValid {
		r.Violation(vh.Sig("clause", "valid", "family", fam, "pfxlen", zvLenClass(l), "want", fmt.Sprint(wantValid)), c, "%s.Valid() = %v want %v", p.String(), got, wantValid)
	}
	if wantValid {
		r.Count("valid_true", 1)
	} else {
		r.Count("valid_false", 1)
	}
	if l >= 1 {
		ip := bits.ip()
		if got := ip.BitAtPosition(uint8(l)); got != bits[l-1] {
			r.Violation(vh.Sig("clause", "bit", "family", fam), c, "%s.BitAtPosition(%d) = %v want %v", ip.String(), l, got, bits[l-1])
		}
	}
	// printing then parsing
	ip := bits.ip()
	back, err := IPFromString(ip.String())
	if err != nil || !back.Equal(ip) {
		cls := "other"
		if famN == 6 && ip.higher == 0 && ip.lower>>32 == 0xffff {
			cls = "v4mapped"
		}
		r.Violation(vh.Sig("clause", "roundtrip_ip", "family", fam, "class", cls), c, "IPFromString(%q) = %v (isLegacy=%v), err=%v; want the same address back", ip.String(), back.String(), back.isLegacy, err)
	}
	vp := NewPfx(wantBase, uint8(l))
	pb, err := PrefixFromString(vp.String())
	if err != nil || !pb.Equal(&vp) {
		cls := "other"
		if famN == 6 && wantBase.higher == 0 && wantBase.lower>>32 == 0xffff {
			cls = "v4mapped"
		}
		r.Violation(vh.Sig("clause", "roundtrip_pfx", "family", fam, "class", cls), c, "PrefixFromString(%q) = %v err=%v", vp.String(), pb, err)
	}
}

func TestVerifC15(t *testing.T) {
	r := vh.Start(t, "C15")
	defer r.Finish()
	r.Rule("every (len_a,len_b) pair x 5 base patterns x (identical | one bit flipped at each position 1..W | that bit and a second one further right, at W/2+1 or W), IPv4 (W=32) and IPv6 (W=128); " +
		"plus address ordering for every pair of addresses differing in two bit positions (both argument orders); plus every (pattern,len,flip) for the single-prefix operations and boundary addresses; non-trivial = the flipped bit lies inside at least one of the two prefixes")
	r.Require("contains_true", "contains_false_longer", "equal_true", "supernet_checked", "compare_nonzero", "compare_halves_opposed", "valid_true", "valid_false")
	if r.IsReplay() {
		var c zvC15Case
		r.ReplayCase(&c)
		if c.Ord {
			zvC15Order(r, c)
		} else if c.Bnd {
			zvC15Boundary(r, c)
		} else if c.LenB < 0 {
			zvC15Single(r, c.Fam, c.Pat, c.LenA, c.Pos)
		} else {
			zvC15One(r, c)
		}
		return
	}
	idx := 0
	for _, fam := range []int{4, 6} {
		w := 32
		if fam == 6 {
			w = 128
		}
		for la := 0; la <= w; la++ {
			idx++
			if !r.Mine(idx) {
				continue
			}
			for lb := 0; lb <= w; lb++ {
				for pat := 0; pat < 5; pat++ {
					for pos := 0; pos <= w; pos++ {
						c := zvC15Case{Fam: fam, Pat: pat, LenA: la, LenB: lb, Pos: pos}
						zvC15One(r, c)
						// a second differing bit to the right of the first: just across the 64-bit boundary, and the last bit
						for _, p2 := range []int{w/2 + 1, w} {
							if pos > 0 && p2 > pos {
								c.Pos2 = p2
								zvC15One(r, c)
							}
						}
					}
				}
			}
			for pat := 0; pat < 5; pat++ {
				for flip := 0; flip <= w; flip++ {
					zvC15Single(r, fam, pat, la, flip)
				}
			}
			// ordering of addresses that differ in two positions (la, p2), every p2 > la
			if la >= 1 {
				for pat := 0; pat < 5; pat++ {
					for p2 := la + 1; p2 <= w; p2++ {
						for mode := 0; mode < 2; mode++ {
							zvC15Order(r, zvC15Case{Fam: fam, Pat: pat, Ord: true, Pos: la, Pos2: p2, Mode: mode})
						}
					}
				}
			}
			if la == 24 {
				r.Sample(zvC15Case{Fam: fam, Pat: 4, LenA: la, LenB: la + 3, Pos: la - 1})
			}
		}
	}
	// boundary addresses (round trip and ordering), shard 0 only
	if s, _ := r.Shard(); s == 0 {
		for _, c := range []zvC15Case{{Fam: 6, Bnd: true}, {Fam: 6, Bnd: true, Lo: 1}, {Fam: 6, Bnd: true, Lo: 0xffff00000000}, {Fam: 6, Bnd: true, Lo: 0xffff0a000001},
			{Fam: 6, Bnd: true, Lo: 0xffffffffffff}, {Fam: 6, Bnd: true, Hi: ^uint64(0), Lo: ^uint64(0)}, {Fam: 6, Bnd: true, Hi: 0x20010db800000000},
			{Fam: 6, Bnd: true, Hi: 0x0000000100000000, Lo: 1}, {Fam: 6, Bnd: true, Hi: 1}, {Fam: 4, Bnd: true}, {Fam: 4, Bnd: true, Lo: 0xffffffff}, {Fam: 4, Bnd: true, Lo: 0x7f000001}} {
			zvC15Boundary(r, c)
		}
	}
}
