package route

// Verification hook, only ever present through the /verif overlay (checks C08, C11, C13).
//
// The BGPPathA dedup cache is process-global. The explorers build fresh tables for
// every history they replay; starting each replay with an empty cache makes a run a
// function of the history alone even if the code under test corrupts a cached entry
// (otherwise such a defect would surface in unrelated histories and not replay).
// The small map also spares every GC cycle the scan of the 100000 pre-sized buckets.
func ZZVerifResetBGPPathACache() {
	bgpC = &bgpPathACache{cache: zzVerifEmptyLike(bgpC.cache)}
}

// zzVerifEmptyLike: an empty map of the same type, whatever the cache is keyed by
func zzVerifEmptyLike[K comparable, V any](map[K]V) map[K]V { return make(map[K]V) }
