package server

// C33 — IS-IS survives any sequence of interface state changes.
//
// Space: every sequence over {up, down} of length <= N delivered as device
// updates to (a) a server with one active interface, (a') the same with a
// neighbour on the link whose hello exchange follows every link-up (so that
// later events hit an interface that holds an adjacency), (b) a server with one
// passive interface, (c) a server with both, events interleaved across the two
// (length <= M). Every sequence is one controlled execution (bound 0) on a fresh
// real Server: after each event the clock is advanced by 10 s so that every
// periodic routine of the server (hello 4 s, LSP/PSNP 5 s, CSNP 10 s, aging 1 s)
// runs at least once in the new link state.
//
// Oracle (on the last event of each sequence; shorter prefixes are sequences of
// their own): no panic in any server goroutine or in the device update itself,
// the device update returns (no deadlock), the scheduler reports no deadlock or
// runaway; if the active interface's link is up at the end, a hello was sent on
// a live ethernet handle during the 10 s, and (extension) a neighbour's two
// hello exchange brings an adjacency Up.

import (
	"fmt"
	"strings"
	"testing"
	"time"

	"github.com/bio-routing/bio-rd/protocols/isis/packet"
	"github.com/bio-routing/bio-rd/zzverif/vh"
	"github.com/bio-routing/bio-rd/zzverif/vsched"
)

type zvC33Case struct {
	Scenario string   `json:"scenario"`
	Events   []string `json:"events"`
}

type zvC33Result struct {
	FailedAt int // index of the event at which the run failed (-1: none)
	Clause   string
	Sig      map[string]string
	Desc     string
	HelloOK  bool
	AdjOK    bool
	ActiveUp bool
	Restarts int // ethernet handles created for the active interface
	MidAdj   int // adjacencies formed after link-ups inside the sequence (scenario active+nbr)
}

func zvC33Ifs(scn string) []zvIfSpec {
	switch scn {
	case "active", "active+nbr":
		return []zvIfSpec{zvIfEth0}
	case "passive":
		return []zvIfSpec{zvIfLo}
	}
	return []zvIfSpec{zvIfEth0, zvIfLo}
}

func zvC33Run(scn string, evs []string, trace bool) zvC33Result {
	res := zvC33Result{FailedAt: -1}
	cur := -1
	fail := func(clause string, sig map[string]string, f string, a ...any) {
		if res.FailedAt >= 0 {
			return
		}
		res.FailedAt, res.Clause, res.Sig, res.Desc = cur, clause, sig, fmt.Sprintf(f, a...)
	}
	x := zvExec(vsched.Config{MaxSteps: 400000, Trace: trace, Sites: true}, func() {
		w := zvIsisNew(false, zvC33Ifs(scn)...)
		up := map[string]bool{}
		hellos := 0
		for i, e := range evs {
			cur = i
			name := "eth0"
			if strings.HasPrefix(e, "p:") {
				name = "lo0"
			}
			isUp := strings.HasSuffix(e, ":up")
			up[name] = isUp
			if a := w.eth("eth0"); a != nil {
				a.take()
			}
			k := w.link(name, isUp)
			if w.adminErr[k] != "" {
				msg, where := zvCrashSite(w.adminErr[k])
				fail("crash", vh.Sig("clause", "crash", "panic", msg, "where", where, "thread", "device-update"),
					"device update %s panicked: %.1500s", e, w.adminErr[k])
				return
			}
			if p := w.pendingAdmin(); len(p) > 0 {
				fail("device-update-blocks", vh.Sig("clause", "device-update-blocks", "event", e[2:]),
					"device update %v never returns: %s", p, vsched.Describe())
				return
			}
			if scn == "active+nbr" && isUp && name == "eth0" {
				// a neighbour is present on the link: its hello exchange follows every link-up
				w.bringUp(zvNbr1, 30)
				for _, a := range w.adjacencies() {
					if a.Status == packet.P2PAdjStateUp {
						res.MidAdj++
					}
				}
			}
			vsched.Advance(10 * time.Second)
			hellos = 0
			if a := w.eth("eth0"); a != nil && !a.closed {
				for _, s := range w.sent("eth0") {
					if s.Type == packet.P2P_HELLO {
						hellos++
					}
				}
			}
		}
		cur = len(evs) - 1
		res.ActiveUp = up["eth0"]
		res.Restarts = len(w.eths["eth0"])
		if scn == "passive" || !up["eth0"] {
			return
		}
		// the active interface's link is up
		res.HelloOK = hellos > 0
		if !res.HelloOK {
			fail("no-hello-after-up", vh.Sig("clause", "no-hello-after-up"),
				"link of the active interface is up but no hello was sent on a live ethernet handle within 10 s (handles created: %d)", res.Restarts)
		}
		// extension: a neighbour appears; two hellos must bring the adjacency Up
		w.bringUp(zvNbr1, 30)
		for _, a := range w.adjacencies() {
			if a.Ifa == "eth0" && a.Status == packet.P2PAdjStateUp {
				res.AdjOK = true
			}
		}
		if !res.AdjOK {
			fail("no-adjacency-after-up", vh.Sig("clause", "no-adjacency-after-up"),
				"link of the active interface is up but a valid hello exchange does not bring an adjacency Up: adjacencies %+v", w.adjacencies())
		}
	})
	if trace {
		for _, l := range x.Log {
			fmt.Println("   ", l)
		}
	}
	switch x.Status {
	case vsched.Completed:
	case vsched.Crash:
		msg, where := zvCrashSite(x.Crash)
		res.FailedAt = -1
		fail("crash", vh.Sig("clause", "crash", "panic", msg, "where", where, "thread", "server"),
			"a server goroutine panicked after event %d: %.1500s", cur, x.Crash)
	default:
		res.FailedAt = -1
		fail("run-"+x.Status.String(), vh.Sig("clause", "run-"+x.Status.String(), "blocked_in", strings.Join(x.BlockedIn, ",")),
			"execution ended with %s after event %d: %s", x.Status, cur, x.Blocked)
	}
	return res
}

// zvC33Seqs enumerates all sequences over alpha of length 1..n (shortest first).
func zvC33Seqs(alpha []string, n int) [][]string {
	var out [][]string
	level := [][]string{nil}
	for d := 1; d <= n; d++ {
		var next [][]string
		for _, p := range level {
			for _, a := range alpha {
				s := append(append([]string{}, p...), a)
				next = append(next, s)
			}
		}
		out = append(out, next...)
		level = next
	}
	return out
}

func TestVerifC33(t *testing.T) {
	r := vh.Start(t, "C33")
	defer r.Finish()
	n, m := 6, 5
	if r.Thorough() {
		n, m = 8, 7
	}
	r.Rule(fmt.Sprintf("all sequences over {up,down} of length <= %d on an active-only server (with and without a neighbour answering every link-up) and on a passive-only server, and all interleavings over {a:up,a:down,p:up,p:down} of length <= %d on a server with both; "+
		"plus link changes racing with the hello timer (every schedule with <= 2 deviations, thorough 3; the timer may fire at any point); one controlled execution (bound 0) per sequence, 10 virtual seconds after every event; non-trivial = sequences with at least one up->down or down->up change", n, m))
	r.Require("active_up_final", "hello_after_up", "adjacency_after_up", "restarts_seen", "passive_up_down")
	r.Extra("max_len_single", n)
	r.Extra("max_len_interleaved", m)
	if r.IsReplay() {
		var cc zvC33ConcCase
		r.ReplayCase(&cc)
		if cc.Conc {
			zvC33ConcRun(r, cc, append([]int{}, cc.Schedule...))
			for _, k := range []string{"active_up_final", "hello_after_up", "adjacency_after_up", "restarts_seen", "passive_up_down"} {
				r.Count(k, 1)
			}
			return
		}
		var c zvC33Case
		r.ReplayCase(&c)
		res := zvC33Run(c.Scenario, c.Events, true)
		if res.FailedAt >= 0 {
			r.Violation(res.Sig, c, "%s", res.Desc)
		}
		fmt.Printf("replay %s %v: %+v\n", c.Scenario, c.Events, res)
		for _, k := range []string{"active_up_final", "hello_after_up", "adjacency_after_up", "restarts_seen", "passive_up_down"} {
			r.Count(k, 1)
		}
		return
	}
	{
		h := []string{"a:up", "p:up", "a:down", "a:up"}
		a, b := zvC33Run("both", h, false), zvC33Run("both", h, false)
		a.Desc, b.Desc = "", "" // (stack traces carry addresses)
		if fmt.Sprintf("%+v", a) != fmt.Sprintf("%+v", b) {
			r.Fatalf("replaying the same sequence twice gave different results:\n%+v\n%+v", a, b)
		}
	}
	type job struct {
		scn string
		evs []string
	}
	var jobs []job
	for _, s := range zvC33Seqs([]string{"a:up", "a:down"}, n) {
		jobs = append(jobs, job{"active", s})
	}
	for _, s := range zvC33Seqs([]string{"a:up", "a:down"}, n) {
		jobs = append(jobs, job{"active+nbr", s})
	}
	for _, s := range zvC33Seqs([]string{"p:up", "p:down"}, n) {
		jobs = append(jobs, job{"passive", s})
	}
	for _, s := range zvC33Seqs([]string{"a:up", "a:down", "p:up", "p:down"}, m) {
		jobs = append(jobs, job{"both", s})
	}
	for i, j := range jobs {
		if !r.Mine(i) {
			continue
		}
		if r.OutOfBudget() {
			r.Cap("time budget")
			break
		}
		res := zvC33Run(j.scn, j.evs, false)
		r.Eval(1)
		r.Traces(1)
		r.Transitions(len(j.evs)) // interface events applied
		// coverage (independent of the oracle's verdict)
		changes, lastA, lastP := 0, "", ""
		for _, e := range j.evs {
			if strings.HasPrefix(e, "a:") {
				if lastA != "" && lastA != e {
					changes++
				}
				lastA = e
			} else {
				if lastP != "" && lastP != e {
					changes++
					if lastP == "p:up" {
						r.Count("passive_up_down", 1)
					}
				}
				lastP = e
			}
		}
		if changes > 0 {
			r.Nontrivial(1)
		}
		if lastA == "a:up" {
			r.Count("active_up_final", 1)
			// up ... down ... up: the interface was restarted at least once
			st := 0
			for _, e := range j.evs {
				if e == "a:up" && (st == 0 || st == 2) {
					st++
				} else if e == "a:down" && st == 1 {
					st = 2
				}
			}
			if st == 3 {
				r.Count("restarts_seen", 1)
			}
		}
		if res.HelloOK {
			r.Count("hello_after_up", 1)
		}
		if res.AdjOK {
			r.Count("adjacency_after_up", 1)
		}
		r.Count("adjacencies_inside_sequences", res.MidAdj)
		r.Outcome(fmt.Sprintf("%s|%v|%v|%v|%s", j.scn, res.ActiveUp, res.HelloOK, res.AdjOK, res.Clause))
		r.Visit(fmt.Sprintf("%s|%v|%v|%v|%v|%d", j.scn, res.ActiveUp, res.HelloOK, res.AdjOK, lastA+lastP, res.MidAdj)) // states = distinct observed end states
		if res.FailedAt == len(j.evs)-1 {
			r.Violation(res.Sig, zvC33Case{j.scn, j.evs}, "[%s %v] %s", j.scn, j.evs, res.Desc)
		} else if res.FailedAt >= 0 {
			r.Count("failed_at_proper_prefix", 1) // reported by the work item of that prefix
		}
	}
	r.Sample(map[string]any{"scenario": "both", "events": jobs[len(jobs)-1].evs})
	zvC33Concurrent(r, len(jobs))
}
