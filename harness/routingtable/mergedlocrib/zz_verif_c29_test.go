package mergedlocrib

// C29 — the merged RIB holds a route exactly while some source advertises it.
// Engine E4: explicit-state BFS over all sequences of AddRoute(s,r) (repeats
// allowed), RemoveRoute(s,r), DropAllBySrc(s) on a real MergedLocRIB over a
// real LocRIB, until the canonical state set closes. Reference model: the set
// of (source, route) pairs currently advertised.

import (
	"crypto/sha1"
	"fmt"
	"sort"
	"strings"
	"testing"

	bnet "github.com/bio-routing/bio-rd/net"
	"github.com/bio-routing/bio-rd/route"
	routeapi "github.com/bio-routing/bio-rd/route/api"
	"github.com/bio-routing/bio-rd/routingtable/locRIB"
	"github.com/bio-routing/bio-rd/zzverif/vh"
)

type zvC29Op struct {
	Kind string `json:"op"` // add | remove | drop
	S    int    `json:"src"`
	R    int    `json:"route"` // unused for drop
}

type zvC29Flavour struct {
	Path    string `json:"path"`    // static | bgp
	Fam     int    `json:"family"`  // 4 | 6
	SrcKind string `json:"sources"` // string | pointer
	NSrc    int    `json:"n_sources"`
	NRoutes int    `json:"n_routes"`
}

type zvC29Case struct {
	Flavour zvC29Flavour `json:"flavour"`
	Hist    []zvC29Op    `json:"history"`
}

type zvC29Src struct{ id int }

// Routes: 0 = r1 (prefix P1, path X), 1 = r1' (prefix P1, path Y),
// 2 = r2 (prefix P2 inside P1, path X), 3 = r2' (prefix P2, path Y).
func zvC29RouteParts(f zvC29Flavour, idx int) (*bnet.Prefix, bnet.IP) {
	var pfx *bnet.Prefix
	var nh bnet.IP
	second := idx >= 2
	other := idx%2 == 1
	if f.Fam == 4 {
		pfx = bnet.NewPfx(bnet.IPv4FromOctets(10, 0, 0, 0), 8).Ptr()
		if second {
			pfx = bnet.NewPfx(bnet.IPv4FromOctets(10, 1, 0, 0), 16).Ptr()
		}
		nh = bnet.IPv4FromOctets(192, 0, 2, 1)
		if other {
			nh = bnet.IPv4FromOctets(192, 0, 2, 2)
		}
	} else {
		pfx = bnet.NewPfx(bnet.IPv6(0x20010db800000000, 0), 32).Ptr()
		if second {
			pfx = bnet.NewPfx(bnet.IPv6(0x20010db800010000, 0), 48).Ptr()
		}
		nh = bnet.IPv6(0x20010db8ffff0000, 1)
		if other {
			nh = bnet.IPv6(0x20010db8ffff0000, 2)
		}
	}
	return pfx, nh
}

// zvC29Route builds a fresh API route object (as the RIS client hands a newly
// decoded message to the merged RIB for every update).
func zvC29Route(f zvC29Flavour, idx int) *routeapi.Route {
	pfx, nh := zvC29RouteParts(f, idx)
	r := &routeapi.Route{Pfx: pfx.ToProto()}
	if f.Path == "static" {
		r.Paths = []*routeapi.Path{{Type: routeapi.Path_Static, StaticPath: &routeapi.StaticPath{NextHop: nh.ToProto()}}}
		return r
	}
	bgpID := uint32(1)
	if idx%2 == 1 {
		bgpID = 2
	}
	r.Paths = []*routeapi.Path{{Type: routeapi.Path_BGP, BgpPath: &routeapi.BGPPath{
		NextHop:       nh.ToProto(),
		Source:        nh.ToProto(),
		LocalPref:     100,
		Ebgp:          true,
		BgpIdentifier: bgpID,
		AsPath:        []*routeapi.ASPathSegment{{AsSequence: true, Asns: []uint32{64512, 64513}}},
		Communities:   []uint32{64512<<16 | 7},
	}}}
	return r
}

// zvC29Key is the pointer-free name of one (prefix, path) of a Loc-RIB dump.
func zvC29Key(pfx *bnet.Prefix, p *route.Path) string {
	switch {
	case p == nil:
		return pfx.String() + " nil-path"
	case p.Type == route.StaticPathType && p.StaticPath != nil && p.StaticPath.NextHop != nil:
		return pfx.String() + " static via " + p.StaticPath.NextHop.String()
	case p.Type == route.BGPPathType && p.BGPPath != nil && p.BGPPath.BGPPathA != nil && p.BGPPath.BGPPathA.NextHop != nil:
		return pfx.String() + " bgp via " + p.BGPPath.BGPPathA.NextHop.String()
	}
	return fmt.Sprintf("%s path-type-%d", pfx.String(), p.Type)
}

func zvC29WantKey(f zvC29Flavour, idx int) string {
	pfx, nh := zvC29RouteParts(f, idx)
	return pfx.String() + " " + f.Path + " via " + nh.String()
}

var zvC29RouteNames = []string{"r1", "r1'", "r2", "r2'"}

func (o zvC29Op) String() string {
	if o.Kind == "drop" {
		return fmt.Sprintf("DropAllBySrc(%c)", 'A'+o.S)
	}
	name := map[string]string{"add": "AddRoute", "remove": "RemoveRoute"}[o.Kind]
	return fmt.Sprintf("%s(%c,%s)", name, 'A'+o.S, zvC29RouteNames[o.R])
}

func zvC29Ops(f zvC29Flavour) []zvC29Op {
	var ops []zvC29Op
	for _, k := range []string{"add", "remove"} {
		for s := 0; s < f.NSrc; s++ {
			for r := 0; r < f.NRoutes; r++ {
				ops = append(ops, zvC29Op{k, s, r})
			}
		}
	}
	for s := 0; s < f.NSrc; s++ {
		ops = append(ops, zvC29Op{"drop", s, 0})
	}
	return ops
}

// zvC29Step replays hist on a fresh MergedLocRIB/LocRIB and evaluates the
// oracle in the reached state.
func zvC29Step(r *vh.Run, f zvC29Flavour, ops []zvC29Op, hist []zvC29Op, count bool) (string, []zvC29Op, bool) {
	lr := locRIB.New("zv-c29")
	m := New(lr)
	srcs := make([]interface{}, f.NSrc)
	for i := range srcs {
		if f.SrcKind == "pointer" {
			srcs[i] = &zvC29Src{id: i} // the RIS client passes its *grpc.ClientConn
		} else {
			srcs[i] = string(rune('A' + i))
		}
	}
	model := make([][]bool, f.NSrc) // model[s][r]: s currently advertises r
	for i := range model {
		model[i] = make([]bool, f.NRoutes)
	}
	advertised := func(rt int) bool {
		for s := range model {
			if model[s][rt] {
				return true
			}
		}
		return false
	}
	c := zvC29Case{f, hist}
	lastOp, repeated := "init", false
	var opErr error
	if p, what := vh.Try(func() {
		for i, o := range hist {
			last := i == len(hist)-1
			lastOp = o.Kind
			switch o.Kind {
			case "add":
				if model[o.S][o.R] {
					repeated = true
					if last && count {
						r.Count("add_repeated_by_same_source", 1)
					}
				} else if last && count && advertised(o.R) {
					r.Count("add_by_second_source", 1)
				}
				if err := m.AddRoute(srcs[o.S], zvC29Route(f, o.R)); err != nil && opErr == nil {
					opErr = err
				}
				model[o.S][o.R] = true
			case "remove":
				if last && count {
					was := model[o.S][o.R]
					model[o.S][o.R] = false
					switch {
					case !was && advertised(o.R):
						r.Count("remove_by_non_advertiser_while_others_advertise", 1)
					case !was:
						r.Count("remove_of_absent_route", 1)
					case advertised(o.R):
						r.Count("remove_leaves_other_sources", 1)
					default:
						r.Count("remove_by_last_source", 1)
					}
				}
				if err := m.RemoveRoute(srcs[o.S], zvC29Route(f, o.R)); err != nil && opErr == nil {
					opErr = err
				}
				model[o.S][o.R] = false
			case "drop":
				if last && count {
					lastSrc, shared := false, false
					for rt := range model[o.S] {
						if model[o.S][rt] {
							model[o.S][rt] = false
							if advertised(rt) {
								shared = true
							} else {
								lastSrc = true
							}
						}
					}
					if lastSrc {
						r.Count("drop_removes_last_source", 1)
					}
					if shared {
						r.Count("drop_leaves_other_sources", 1)
					}
				}
				m.DropAllBySrc(srcs[o.S])
				for rt := range model[o.S] {
					model[o.S][rt] = false
				}
			}
		}
	}); p {
		r.Violation(vh.Sig("clause", "panic", "op", lastOp), c, "%s panicked: %s", zvC29Hist(hist), what)
		return "panic:" + what, nil, false
	}
	ok := true
	rep := fmt.Sprint(repeated)
	if opErr != nil {
		ok = false
		r.Violation(vh.Sig("clause", "op_error", "op", lastOp), c, "%s: operation returned %v", zvC29Hist(hist), opErr)
	}
	// observation: the underlying Loc-RIB through its public dump
	got := map[string]int{}
	var dump []string
	if p, what := vh.Try(func() {
		for _, rt := range lr.Dump() {
			for _, pa := range rt.Paths() {
				k := zvC29Key(rt.Prefix(), pa)
				got[k]++
				dump = append(dump, k)
			}
		}
	}); p {
		r.Violation(vh.Sig("clause", "panic", "op", "dump-after-"+lastOp), c, "%s: Loc-RIB dump panicked: %s", zvC29Hist(hist), what)
		return "panic:" + what, nil, false
	}
	bothPaths := 0
	for rt := 0; rt < f.NRoutes; rt++ {
		k := zvC29WantKey(f, rt)
		want := advertised(rt)
		switch {
		case got[k] > 0 && !want:
			ok = false
			r.Violation(vh.Sig("clause", "present_but_not_advertised", "op", lastOp, "repeated_add_in_history", rep), c,
				"%s: the Loc-RIB still holds %s (%s) although no source advertises it", zvC29Hist(hist), zvC29RouteNames[rt], k)
		case got[k] == 0 && want:
			ok = false
			r.Violation(vh.Sig("clause", "advertised_but_absent", "op", lastOp, "repeated_add_in_history", rep), c,
				"%s: %s (%s) is advertised by a source but missing from the Loc-RIB", zvC29Hist(hist), zvC29RouteNames[rt], k)
		}
		if want && count {
			r.Count("oracle_route_advertised", 1)
			if rt%2 == 1 && advertised(rt-1) {
				bothPaths++
			}
		}
		delete(got, k)
	}
	if bothPaths > 0 && count {
		r.Count("state_same_prefix_two_paths", 1)
	}
	for k := range got {
		ok = false
		r.Violation(vh.Sig("clause", "foreign_route", "op", lastOp), c, "%s: the Loc-RIB holds %s which was never advertised", zvC29Hist(hist), k)
	}
	// canonical state: the model, the Loc-RIB content with multiplicities and
	// the merged RIB's private per-route source lists (order kept: removeSource
	// swaps, so a refcount-style defect shows up as a new state and is followed)
	var sb strings.Builder
	fmt.Fprint(&sb, model, "|")
	sort.Strings(dump)
	fmt.Fprint(&sb, dump, "|")
	known := 0
	for rt := 0; rt < f.NRoutes; rt++ {
		h := zvC29Hash(r, f, rt)
		rc, exists := m.routes[h]
		if !exists {
			sb.WriteString("-;")
			continue
		}
		known++
		sb.WriteString("[")
		for _, s := range rc.sources {
			idx := -1
			for i := range srcs {
				if srcs[i] == s {
					idx = i
				}
			}
			fmt.Fprintf(&sb, "%d,", idx)
		}
		sb.WriteString("];")
	}
	fmt.Fprintf(&sb, "other=%d", len(m.routes)-known)
	return sb.String(), ops, ok
}

// zvC29Hash: the merged RIB's map key of route rt (only used to read the
// private source lists for the canonical state).
var zvC29HashCache = map[string][sha1.Size]byte{}

func zvC29Hash(r *vh.Run, f zvC29Flavour, rt int) [sha1.Size]byte {
	k := fmt.Sprint(f.Path, f.Fam, rt)
	if h, ok := zvC29HashCache[k]; ok {
		return h
	}
	h, err := hashRoute(zvC29Route(f, rt))
	if err != nil {
		r.Fatalf("hashRoute: %v", err)
	}
	h2, _ := hashRoute(zvC29Route(f, rt))
	if h != h2 {
		r.Fatalf("hashRoute is not a function of the route content")
	}
	zvC29HashCache[k] = h
	return h
}

func zvC29Hist(h []zvC29Op) string {
	s := make([]string, len(h))
	for i := range h {
		s[i] = h[i].String()
	}
	return strings.Join(s, "; ")
}

func zvC29Flavours(thorough bool) []zvC29Flavour {
	var fs []zvC29Flavour
	for _, p := range []string{"static", "bgp"} {
		for _, fam := range []int{4, 6} {
			for _, sk := range []string{"pointer", "string"} {
				fs = append(fs, zvC29Flavour{Path: p, Fam: fam, SrcKind: sk, NSrc: 3, NRoutes: 3})
			}
		}
	}
	if thorough {
		n := len(fs)
		for i := 0; i < n; i++ {
			f := fs[i]
			f.NRoutes = 4
			fs = append(fs, f)
		}
		for i := 0; i < n; i++ {
			f := fs[i]
			if f.SrcKind != "pointer" {
				continue
			}
			f.NSrc, f.NRoutes = 4, 2
			fs = append(fs, f)
		}
	}
	return fs
}

var zvC29Counters = []string{"add_repeated_by_same_source", "add_by_second_source", "remove_by_non_advertiser_while_others_advertise", "remove_of_absent_route",
	"remove_leaves_other_sources", "remove_by_last_source", "drop_removes_last_source", "drop_leaves_other_sources", "oracle_route_advertised", "state_same_prefix_two_paths"}

func TestVerifC29(t *testing.T) {
	r := vh.Start(t, "C29")
	defer r.Finish()
	r.Rule("per flavour (static|BGP paths x IPv4|IPv6 x pointer|string sources; 3 sources x 3 routes r1, r2, r1' = r1's prefix with another path; thorough adds 3 sources x 4 routes (r2' too) for every flavour and 4 sources x 2 routes (r1, r1') for the pointer-source flavours), " +
		"BFS over all sequences of AddRoute (repeats allowed), RemoveRoute (also by non-advertisers / of absent routes), DropAllBySrc until the set of canonical states " +
		"(model + Loc-RIB content + private per-route source lists) closes; oracle in every reached state: route in the Loc-RIB dump <=> some source advertises it; evaluations = flavours explored")
	r.Require(zvC29Counters...)
	if r.IsReplay() {
		var c zvC29Case
		r.ReplayCase(&c)
		f := c.Flavour
		if f.NSrc < 1 || f.NSrc > 4 || f.NRoutes < 1 || f.NRoutes > 4 {
			r.Fatalf("replay case outside the harness' alphabet: %+v", f)
		}
		for n := 0; n <= len(c.Hist); n++ {
			zvC29Step(r, f, nil, c.Hist[:n], false)
		}
		for _, k := range zvC29Counters {
			r.Count(k, 1)
		}
		return
	}
	fs := zvC29Flavours(r.Thorough())
	r.Extra("flavours_total", len(fs))
	for i, f := range fs {
		if !r.Mine(i) {
			continue
		}
		if r.OutOfBudget() {
			r.Cap("time budget: not all flavours explored")
			break
		}
		ops := zvC29Ops(f)
		// upper bound of the state count of a correct implementation: per route
		// the ordered arrangements of a subset of the sources
		per := 0
		for k, arr := 0, 1; k <= f.NSrc; k++ {
			per += arr
			arr *= f.NSrc - k
		}
		bound := 1
		for j := 0; j < f.NRoutes; j++ {
			bound *= per
		}
		b := vh.BFS[zvC29Op]{R: r, Label: fmt.Sprintf("%s/v%d/%s/%dx%d", f.Path, f.Fam, f.SrcKind, f.NSrc, f.NRoutes), MaxStates: 4*bound + 1000,
			Step: func(h []zvC29Op) (string, []zvC29Op, bool) { return zvC29Step(r, f, ops, h, true) }}
		states, _, closed := b.Explore()
		if closed && states > bound {
			// not a violation by itself, but worth seeing in the evidence
			r.Extra("states_above_set_semantics_bound:"+b.Label, states)
		}
		r.Eval(1)
		r.Nontrivial(1)
	}
}
