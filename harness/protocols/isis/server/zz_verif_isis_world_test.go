package server

// IS-IS test world shared by C31, C32 and C33: a real isis Server driven through
// scheduler-aware implementations of its two public I/O seams
// (ethernet.EthernetInterfaceFactoryI / EthernetInterfaceI and device.Updater)
// and the virtual clock (the package's benbjohnson clock is rewritten onto
// vsched by the instrumenter). Everything here runs inside one vsched.Exec; the
// harness's main thread plays the environment (neighbours, kernel link state,
// clock). Nothing blocks on a native channel.

import (
	"bytes"
	"errors"
	"fmt"
	"runtime"
	"runtime/debug"
	"sort"
	"strings"

	bnet "github.com/bio-routing/bio-rd/net"
	"github.com/bio-routing/bio-rd/net/ethernet"
	"github.com/bio-routing/bio-rd/protocols/device"
	"github.com/bio-routing/bio-rd/protocols/isis/packet"
	"github.com/bio-routing/bio-rd/protocols/isis/types"
	blog "github.com/bio-routing/bio-rd/util/log"
	"github.com/bio-routing/bio-rd/zzverif/vsched"
)

// zvExec is vsched.Exec with the garbage collector switched off for the duration
// of the execution (defensive). vsched models channels in a side table keyed by
// the channel's address; when that table did not keep the channels alive, a
// channel dropped by the code under test (netIfa replaces its closed `done`
// channel on restart, disposed neighbours drop theirs) could be freed and a
// later make(chan) be given the same address, inheriting the stale model state
// (closed=true) at a moment that depended on GC timing: about 1 in 800 IS-IS
// executions reported a violation that did not reproduce. The engine now pins
// the channels; without collection no address can be reused within an
// execution in any case. Garbage is collected between executions.
func zvExec(cfg vsched.Config, body func()) *vsched.Execution {
	old := debug.SetGCPercent(-1)
	defer debug.SetGCPercent(old)
	return vsched.Exec(cfg, body)
}

// ---------------------------------------------------------------------------
// fake ethernet interface

type zvFrame struct {
	mac ethernet.MACAddr
	pkt []byte
}

// zvEth is a scheduler-aware ethernet.EthernetInterfaceI: RecvPacket parks the
// receiver thread until the harness delivered a frame or the interface was
// closed; SendPacket captures.
type zvEth struct {
	name            string
	gen             int // how many-th handle created for this device name
	in              []zvFrame
	out             []zvFrame
	closed          bool
	closes          int
	joined          []ethernet.MACAddr
	sendsAfterClose int
}

func (e *zvEth) RecvPacket() ([]byte, ethernet.MACAddr, error) {
	vsched.Do(vsched.KIO, "eth("+e.name+").RecvPacket", func() bool { return len(e.in) > 0 || e.closed }, nil)
	if e.closed {
		return nil, ethernet.MACAddr{}, errors.New("socket closed")
	}
	f := e.in[0]
	e.in = e.in[1:]
	return f.pkt, f.mac, nil
}

func (e *zvEth) SendPacket(dst ethernet.MACAddr, pkt []byte) error {
	if e.closed {
		e.sendsAfterClose++
		return errors.New("socket closed")
	}
	e.out = append(e.out, zvFrame{dst, append([]byte{}, pkt...)})
	return nil
}

func (e *zvEth) MCastJoin(a ethernet.MACAddr) error { e.joined = append(e.joined, a); return nil }
func (e *zvEth) GetMTU() int                        { return 1500 }
func (e *zvEth) Close()                             { e.closed = true; e.closes++ }

// deliver hands a frame to the receiver (environment action).
func (e *zvEth) deliver(src ethernet.MACAddr, pkt []byte) {
	e.in = append(e.in, zvFrame{src, pkt})
}

// take returns and clears the frames sent so far.
func (e *zvEth) take() []zvFrame {
	o := e.out
	e.out = nil
	return o
}

type zvEthFactory struct{ w *zvIsisWorld }

func (f *zvEthFactory) New(name string, bpf *ethernet.BPF, llc ethernet.LLC) (ethernet.EthernetInterfaceI, error) {
	e := &zvEth{name: name, gen: len(f.w.eths[name])}
	f.w.eths[name] = append(f.w.eths[name], e)
	return e, nil
}

// ---------------------------------------------------------------------------
// fake device updater

type zvDev struct {
	index uint64
	oper  uint8
	addrs []*bnet.Prefix
}

func (d *zvDev) GetIndex() uint64         { return d.index }
func (d *zvDev) GetOperState() uint8      { return d.oper }
func (d *zvDev) GetAddrs() []*bnet.Prefix { return d.addrs }

type zvDU struct {
	clients map[string]device.Client
}

func (d *zvDU) Subscribe(c device.Client, name string) { d.clients[name] = c }
func (d *zvDU) Unsubscribe(device.Client, string)      {}
func (d *zvDU) Start() error                           { return nil }

// ---------------------------------------------------------------------------
// world

type zvIfSpec struct {
	Name    string
	Passive bool
	Index   uint64
	Addr    *bnet.Prefix
}

var (
	zvIsisLocalSys = types.SystemID{0x0c, 0x0c, 0x0c, 0x0d, 0x0d, 0x0d}
	zvIsisArea     = types.AreaID{0x49, 0x00, 0x01}

	zvIfEth0 = zvIfSpec{Name: "eth0", Index: 7, Addr: bnet.NewPfx(bnet.IPv4FromOctets(169, 254, 100, 0), 31).Ptr()}
	zvIfEth1 = zvIfSpec{Name: "eth1", Index: 8, Addr: bnet.NewPfx(bnet.IPv4FromOctets(169, 254, 101, 0), 31).Ptr()}
	zvIfEth2 = zvIfSpec{Name: "eth2", Index: 9, Addr: bnet.NewPfx(bnet.IPv4FromOctets(169, 254, 102, 0), 31).Ptr()}
	zvIfLo   = zvIfSpec{Name: "lo0", Index: 1, Passive: true, Addr: bnet.NewPfx(bnet.IPv4FromOctets(10, 0, 0, 1), 32).Ptr()}
)

const (
	zvIsisHelloInterval = 4
	zvIsisHoldingTimer  = 16
)

// zvNbr is a simulated neighbouring IS on one of our circuits.
type zvNbr struct {
	Name string
	Ifa  string
	Sys  types.SystemID
	MAC  ethernet.MACAddr
	IP   uint32
	Circ uint32 // its extended local circuit ID
}

var (
	zvNbr1 = zvNbr{Name: "N1", Ifa: "eth0", Sys: types.SystemID{0xde, 0xad, 0xbe, 0xef, 0xff, 0x01}, MAC: ethernet.MACAddr{0xde, 0xad, 0xbe, 0xef, 0x12, 0x01}, IP: 169<<24 | 254<<16 | 100<<8 | 1, Circ: 100}
	zvNbr2 = zvNbr{Name: "N2", Ifa: "eth1", Sys: types.SystemID{0xde, 0xad, 0xbe, 0xef, 0xff, 0x02}, MAC: ethernet.MACAddr{0xde, 0xad, 0xbe, 0xef, 0x12, 0x02}, IP: 169<<24 | 254<<16 | 101<<8 | 1, Circ: 200}
)

type zvIsisWorld struct {
	srv   *Server
	du    *zvDU
	eths  map[string][]*zvEth
	specs map[string]zvIfSpec
	// admin threads (device updates are delivered from their own thread, like the device server does)
	admin     []vsched.Handle
	adminWhat []string
	adminErr  []string // panic text of a device update ("" = none)
}

// zvIsisNew builds a server the way cmd/bio-rd and the repo's integration test
// do: New, Start (unless noStart), factory + hostname, AddInterface per interface.
func zvIsisNew(noStart bool, ifs ...zvIfSpec) *zvIsisWorld {
	w := &zvIsisWorld{du: &zvDU{clients: map[string]device.Client{}}, eths: map[string][]*zvEth{}, specs: map[string]zvIfSpec{}}
	s, err := New([]*types.NET{{AreaID: zvIsisArea, SystemID: zvIsisLocalSys}}, w.du, 1800)
	if err != nil {
		panic(err)
	}
	w.srv = s
	s.SetEthernetInterfaceFactory(&zvEthFactory{w})
	s.SetHostnameFunc(func() (string, error) { return "zv", nil })
	if !noStart {
		s.Start()
	}
	for _, i := range ifs {
		w.specs[i.Name] = i
		err := s.AddInterface(&InterfaceConfig{Name: i.Name, Passive: i.Passive, PointToPoint: true,
			Level2: &InterfaceLevelConfig{HelloInterval: zvIsisHelloInterval, HoldingTimer: zvIsisHoldingTimer, Metric: 10, Passive: i.Passive}})
		if err != nil {
			panic(err)
		}
	}
	vsched.Settle()
	return w
}

// eth returns the newest ethernet handle created for the device (nil if none).
func (w *zvIsisWorld) eth(name string) *zvEth {
	l := w.eths[name]
	if len(l) == 0 {
		return nil
	}
	return l[len(l)-1]
}

// link delivers a device update (oper state up/down) from its own thread and
// lets the server settle. It returns the index of the admin thread.
func (w *zvIsisWorld) link(name string, up bool) int {
	sp := w.specs[name]
	st := uint8(device.IfOperDown)
	if up {
		st = device.IfOperUp
	}
	d := &zvDev{index: sp.Index, oper: st, addrs: []*bnet.Prefix{sp.Addr}}
	c := w.du.clients[name]
	i := len(w.admin)
	w.adminErr = append(w.adminErr, "")
	w.adminWhat = append(w.adminWhat, fmt.Sprintf("%s:%v", name, up))
	w.admin = append(w.admin, vsched.GoNamed("device-update", func() {
		defer func() {
			if e := recover(); e != nil {
				if zvIsAbort(e) {
					panic(e)
				}
				buf := make([]byte, 8192)
				buf = buf[:runtime.Stack(buf, false)]
				w.adminErr[i] = fmt.Sprintf("%v\n%s", e, buf)
			}
		}()
		c.DeviceUpdate(d)
	}))
	vsched.Settle()
	return i
}

// linkBurst delivers several link state changes of one interface back to back from one thread (a flapping link):
// nothing settles in between, the interface's routines get to run when the scheduler lets them.
func (w *zvIsisWorld) linkBurst(name string, ups []bool) int {
	sp := w.specs[name]
	c := w.du.clients[name]
	i := len(w.admin)
	w.adminErr = append(w.adminErr, "")
	w.adminWhat = append(w.adminWhat, fmt.Sprintf("%s:burst%v", name, ups))
	w.admin = append(w.admin, vsched.GoNamed("device-update", func() {
		defer func() {
			if e := recover(); e != nil {
				if zvIsAbort(e) {
					panic(e)
				}
				buf := make([]byte, 8192)
				buf = buf[:runtime.Stack(buf, false)]
				w.adminErr[i] = fmt.Sprintf("%v\n%s", e, buf)
			}
		}()
		for _, up := range ups {
			st := uint8(device.IfOperDown)
			if up {
				st = device.IfOperUp
			}
			c.DeviceUpdate(&zvDev{index: sp.Index, oper: st, addrs: []*bnet.Prefix{sp.Addr}})
		}
	}))
	vsched.Settle()
	return i
}

// linksUp brings the links of all given interfaces up the way a device server
// does for devices that exist at start-up: every interface first learns its
// device (reported down), then the links come up one by one.
func (w *zvIsisWorld) linksUp(names ...string) {
	for _, n := range names {
		w.link(n, false)
	}
	for _, n := range names {
		w.link(n, true)
	}
}

// zvIsAbort recognises the scheduler's private unwinding panic (teardown), which must be passed on.
func zvIsAbort(e any) bool {
	return strings.Contains(fmt.Sprintf("%T", e), "abortSentinel")
}

// pendingAdmin lists device updates that have not returned.
func (w *zvIsisWorld) pendingAdmin() []string {
	var p []string
	for i, h := range w.admin {
		if !h.Done() && w.adminErr[i] == "" {
			p = append(p, w.adminWhat[i])
		}
	}
	return p
}

// ---------------------------------------------------------------------------
// PDUs from the neighbours

var zvLLC = []byte{0xfe, 0xfe, 0x03}

func zvFrameBytes(pduType uint8, body packet.Serializable) []byte {
	buf := bytes.NewBuffer(nil)
	buf.Write(zvLLC)
	h := getHeader(pduType)
	h.Serialize(buf)
	body.Serialize(buf)
	return buf.Bytes()
}

// three-way TLV variants of a received hello
const (
	zvTLVListsUs    = "lists-us"      // neighbour system ID = ours, neighbour circuit = our circuit
	zvTLVWrongCirc  = "wrong-circuit" // lists us with a different extended circuit ID
	zvTLVOtherSys   = "other-system"  // lists a third system
	zvTLVNoNeighbor = "no-neighbor"   // 5 byte form, adjacency state Down
	zvTLVAbsent     = "tlv-absent"    // no three-way adjacency TLV at all
)

var zvTLVVariants = []string{zvTLVListsUs, zvTLVWrongCirc, zvTLVOtherSys, zvTLVNoNeighbor, zvTLVAbsent}

func (w *zvIsisWorld) hello(n zvNbr, variant string, hold uint16) []byte {
	h := &packet.P2PHello{CircuitType: types.CircuitTypeL2, SystemID: n.Sys, HoldingTimer: hold, LocalCircuitID: 1}
	our := uint32(w.specs[n.Ifa].Index)
	switch variant {
	case zvTLVListsUs, zvTLVWrongCirc, zvTLVOtherSys:
		t := packet.NewP2PAdjacencyStateTLV(packet.P2PAdjStateInit, n.Circ)
		t.TLVLength = packet.P2PAdjacencyStateTLVLenWithNeighbor
		t.NeighborSystemID = zvIsisLocalSys
		t.NeighborExtendedLocalCircuitID = our
		if variant == zvTLVWrongCirc {
			t.NeighborExtendedLocalCircuitID = our + 1000
		}
		if variant == zvTLVOtherSys {
			t.NeighborSystemID = types.SystemID{9, 9, 9, 9, 9, 9}
		}
		h.TLVs = append(h.TLVs, t)
	case zvTLVNoNeighbor:
		h.TLVs = append(h.TLVs, packet.NewP2PAdjacencyStateTLV(packet.P2PAdjStateDown, n.Circ))
	}
	h.TLVs = append(h.TLVs, packet.NewProtocolsSupportedTLV([]uint8{packet.NLPIDIPv4, packet.NLPIDIPv6}))
	h.TLVs = append(h.TLVs, packet.NewIPInterfaceAddressesTLV([]*bnet.Prefix{bnet.NewPfx(bnet.IPv4(n.IP), 32).Ptr()}))
	h.TLVs = append(h.TLVs, packet.NewAreaAddressesTLV([]types.AreaID{zvIsisArea}))
	return zvFrameBytes(packet.P2P_HELLO, h)
}

// recvHello delivers a hello of neighbour n on its circuit and lets the server settle.
// It reports whether a live (open) ethernet handle took the frame.
func (w *zvIsisWorld) recvHello(n zvNbr, variant string, hold uint16) bool {
	return w.recv(n, w.hello(n, variant, hold))
}

func (w *zvIsisWorld) recv(n zvNbr, frame []byte) bool {
	e := w.eth(n.Ifa)
	if e == nil || e.closed {
		return false
	}
	e.deliver(n.MAC, frame)
	vsched.Settle()
	return len(e.in) == 0
}

// bringUp forms the adjacency with n (first hello creates the neighbour, the second one lists us).
func (w *zvIsisWorld) bringUp(n zvNbr, hold uint16) {
	w.recvHello(n, zvTLVNoNeighbor, hold)
	w.recvHello(n, zvTLVListsUs, hold)
}

// ---------------------------------------------------------------------------
// observations

type zvAdj struct {
	Ifa    string
	Sys    string
	Status uint8
	TTL    int // seconds until the hold timer expires (negative: expired)
	Age    int // seconds since the last state change
}

func zvAdjState(s uint8) string {
	switch s {
	case packet.P2PAdjStateUp:
		return "Up"
	case packet.P2PAdjStateInit:
		return "Init"
	case packet.P2PAdjStateDown:
		return "Down"
	}
	return fmt.Sprintf("state%d", s)
}

// adjacencies reads the public adjacency list, sorted.
func (w *zvIsisWorld) adjacencies() []zvAdj {
	now := vsched.Now()
	var l []zvAdj
	for _, a := range w.srv.GetAdjacencies() {
		l = append(l, zvAdj{Ifa: a.InterfaceName, Sys: a.SystemID.String(), Status: a.Status,
			TTL: int(a.Timeout.Sub(now).Seconds()), Age: int(now.Sub(a.LastStateChange).Seconds())})
	}
	sort.Slice(l, func(i, j int) bool {
		if l[i].Ifa != l[j].Ifa {
			return l[i].Ifa < l[j].Ifa
		}
		return l[i].Sys < l[j].Sys
	})
	return l
}

// zvSent is a decoded PDU the server sent.
type zvSent struct {
	Ifa  string
	Type uint8
	Pkt  *packet.ISISPacket
	Err  string
}

// sent decodes and clears what was sent on the newest handle of the device.
func (w *zvIsisWorld) sent(name string) []zvSent {
	e := w.eth(name)
	if e == nil {
		return nil
	}
	var l []zvSent
	for _, f := range e.take() {
		s := zvSent{Ifa: name}
		if len(f.pkt) > 4 {
			s.Type = f.pkt[4]
		}
		p, err := packet.Decode(bytes.NewBuffer(append(append([]byte{}, zvLLC...), f.pkt...)))
		if err != nil {
			s.Err = err.Error()
		} else {
			s.Pkt = p
		}
		l = append(l, s)
	}
	return l
}

// ownLSP returns the local LSP as exported by GetLSDB (nil if absent).
func (w *zvIsisWorld) ownLSP() *packet.LSPDU {
	for _, e := range w.srv.GetLSDB() {
		if l := e.GetLSPDU(); l.LSPID.SystemID == zvIsisLocalSys {
			return l
		}
	}
	return nil
}

// zvISReach lists the neighbour system IDs of the extended IS reachability TLV(s), sorted.
func zvISReach(l *packet.LSPDU) []string {
	var r []string
	if l == nil {
		return r
	}
	for _, t := range l.TLVs {
		if x, ok := t.(*packet.ExtendedISReachabilityTLV); ok {
			for _, n := range x.Neighbors {
				r = append(r, n.NeighborID.SystemID.String())
			}
		}
	}
	sort.Strings(r)
	return r
}

func zvClamp(v, lo, hi int) int {
	if v < lo {
		return lo
	}
	if v > hi {
		return hi
	}
	return v
}

// ---------------------------------------------------------------------------
// crash classification

// zvCrashSite extracts (panic message, innermost function of the code under
// test) from a panic text followed by a goroutine stack, giving violations of
// different root causes different, address-free signatures.
func zvCrashSite(text string) (msg, where string) {
	lines := strings.Split(text, "\n")
	msg = lines[0]
	if i := strings.Index(msg, "): "); i >= 0 && strings.HasPrefix(msg, "panic in thread") {
		msg = msg[i+3:]
	}
	if strings.Contains(msg, "nil pointer dereference") {
		msg = "nil pointer dereference"
	}
	where = "?"
	const pfx = "github.com/bio-routing/bio-rd/protocols/isis/server."
	for _, l := range lines[1:] {
		l = strings.TrimSpace(l)
		if !strings.HasPrefix(l, pfx) {
			continue
		}
		fn := l[len(pfx):]
		if i := strings.LastIndex(fn, "("); i > 0 {
			fn = fn[:i]
		}
		base := fn
		if i := strings.LastIndex(base, "."); i >= 0 {
			base = base[i+1:]
		}
		if strings.Contains(fn, "zv") || strings.Contains(fn, "TestVerif") {
			continue
		}
		where = fn
		break
	}
	return msg, where
}

// ---------------------------------------------------------------------------
// logging: silent, errors are kept for diagnostics

type zvIsisLogger struct{}

var zvIsisErrLog []string

func (l zvIsisLogger) Errorf(f string, a ...interface{}) {
	if len(zvIsisErrLog) < 50 {
		zvIsisErrLog = append(zvIsisErrLog, fmt.Sprintf(f, a...))
	}
}
func (l zvIsisLogger) Infof(string, ...interface{})  {}
func (l zvIsisLogger) Debugf(string, ...interface{}) {}
func (l zvIsisLogger) Error(m string) {
	if len(zvIsisErrLog) < 50 {
		zvIsisErrLog = append(zvIsisErrLog, m)
	}
}
func (l zvIsisLogger) Info(string)                                 {}
func (l zvIsisLogger) Debug(string)                                {}
func (l zvIsisLogger) WithFields(blog.Fields) blog.LoggerInterface { return l }
func (l zvIsisLogger) WithError(error) blog.LoggerInterface        { return l }

func init() { blog.SetLogger(zvIsisLogger{}) }
