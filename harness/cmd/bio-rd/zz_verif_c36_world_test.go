package main

// C36 — the world a configuration history runs in: the daemon's real
// loadConfig/bgpConfigurator against a real bgpserver.BGPServer whose listener
// manager, connections, dialler and clock belong to the controlled scheduler.
// Everything here runs inside one vsched execution; the harness's main thread
// plays the operator (reload), the clock and the remote speakers.

import (
	"encoding/hex"
	"errors"
	"fmt"
	"net"
	"os"
	"sort"
	"strings"
	"time"

	"github.com/bio-routing/bio-rd/cmd/bio-rd/config"
	bnet "github.com/bio-routing/bio-rd/net"
	"github.com/bio-routing/bio-rd/net/tcp"
	"github.com/bio-routing/bio-rd/protocols/bgp/types"
	bgpserver "github.com/bio-routing/bio-rd/protocols/bgp/server"
	"github.com/bio-routing/bio-rd/route"
	"github.com/bio-routing/bio-rd/routingtable/filter"
	"github.com/bio-routing/bio-rd/routingtable/vrf"
	blog "github.com/bio-routing/bio-rd/util/log"
	"github.com/bio-routing/bio-rd/zzverif/vh"
	"github.com/bio-routing/bio-rd/zzverif/vsched"
)

const (
	zvC36Window      = 600 * time.Second // observation window after the last reload
	zvC36ReloadLimit = 300               // virtual seconds a reload may take
	zvC36RouterID    = 0xc0000201        // 192.0.2.1, the router_id of every configuration
)

// --- silent logger ---------------------------------------------------------

type zvC36Logger struct{}

func (l zvC36Logger) Errorf(string, ...interface{})                {}
func (l zvC36Logger) Infof(string, ...interface{})                 {}
func (l zvC36Logger) Debugf(string, ...interface{})                {}
func (l zvC36Logger) Error(string)                                 {}
func (l zvC36Logger) Info(string)                                  {}
func (l zvC36Logger) Debug(string)                                 {}
func (l zvC36Logger) WithFields(blog.Fields) blog.LoggerInterface  { return l }
func (l zvC36Logger) WithError(error) blog.LoggerInterface         { return l }

// --- scheduler-aware connection ---------------------------------------------

type zvC36Conn struct {
	id            int
	closed        bool
	out           []byte
	local, remote net.Addr
}

func (c *zvC36Conn) Read(p []byte) (int, error) {
	vsched.Do(vsched.KIO, fmt.Sprintf("conn%d.Read", c.id), func() bool { return c.closed }, nil)
	return 0, errors.New("use of closed network connection")
}
func (c *zvC36Conn) Write(p []byte) (int, error) {
	if c.closed {
		return 0, errors.New("use of closed network connection")
	}
	c.out = append(c.out, p...)
	return len(p), nil
}
func (c *zvC36Conn) Close() error                       { c.closed = true; return nil }
func (c *zvC36Conn) LocalAddr() net.Addr                { return c.local }
func (c *zvC36Conn) RemoteAddr() net.Addr               { return c.remote }
func (c *zvC36Conn) SetDeadline(t time.Time) error      { return nil }
func (c *zvC36Conn) SetReadDeadline(t time.Time) error  { return nil }
func (c *zvC36Conn) SetWriteDeadline(t time.Time) error { return nil }

// --- fake listener manager ---------------------------------------------------

type zvC36Listener struct {
	w   *zvC36World
	vrf string
}

func (l *zvC36Listener) SetTCPMD5(peer net.IP, secret string) error {
	l.w.md5[l.vrf+"|"+peer.String()] = secret
	return nil
}
func (l *zvC36Listener) AcceptTCP() (tcp.ConnI, error) { return nil, errors.New("not used") }

type zvC36LM struct {
	w         *zvC36World
	ch        chan tcp.ConnWithVRF
	listeners map[string]*zvC36Listener
}

func (l *zvC36LM) ListenAddrsPerVRF(*vrf.VRF) []string { return nil }
func (l *zvC36LM) GetListeners(v *vrf.VRF) []tcp.ListenerI {
	if x, ok := l.listeners[v.Name()]; ok {
		return []tcp.ListenerI{x}
	}
	return nil
}
func (l *zvC36LM) CreateListenersIfNotExists(v *vrf.VRF) error {
	if _, ok := l.listeners[v.Name()]; !ok {
		l.listeners[v.Name()] = &zvC36Listener{w: l.w, vrf: v.Name()}
	}
	return nil
}
func (l *zvC36LM) AcceptCh() chan tcp.ConnWithVRF { return l.ch }

// --- world -------------------------------------------------------------------

type zvC36Dial struct {
	At     time.Duration // virtual time since the start of the execution
	Key    string        // vrf|address of the peer that dials
	Params string        // ttl / md5 / noRoute as handed to the dialler
	conn   *zvC36Conn    // accept mode: the connection handed to the FSM
}

type zvC36World struct {
	srv   bgpserver.BGPServer
	reg   *vrf.VRFRegistry
	lm    *zvC36LM
	vrfs  map[string]*vrf.VRF
	dials []zvC36Dial
	md5   map[string]string
	conns int
	t0    time.Time
	// accept: outgoing connections succeed (the remote end stays silent), so that
	// active FSMs reach OpenSent and send their OPEN; otherwise they are refused
	accept bool
}

var zvC36Cur *zvC36World

func init() {
	blog.SetLogger(zvC36Logger{})
	bgpserver.ZvDialHook = func(laddr, raddr *net.TCPAddr, ttl uint8, md5 string, noRoute bool, bindDev string) (net.Conn, error) {
		w := zvC36Cur
		if w == nil {
			return nil, errors.New("no world")
		}
		v := bindDev
		if v == "" {
			v = vrf.DefaultVRFName
		}
		d := zvC36Dial{At: vsched.Now().Sub(w.t0), Key: v + "|" + raddr.IP.String(),
			Params: fmt.Sprintf("ttl=%d md5=%q noroute=%v", ttl, md5, noRoute)}
		if !w.accept {
			w.dials = append(w.dials, d)
			return nil, errors.New("connection refused")
		}
		w.conns++
		d.conn = &zvC36Conn{id: w.conns, local: &net.TCPAddr{IP: net.ParseIP("10.0.0.1"), Port: 50000 + w.conns}, remote: raddr}
		w.dials = append(w.dials, d)
		return d.conn, nil
	}
}

// zvC36NewWorld builds what main() builds before the first configuration is
// loaded: VRF registry with the default VRF, BGP server, started. The second
// routing instance exists beforehand (main() has no working code path that
// creates one: see the assumptions of the check).
func zvC36NewWorld(accept bool) *zvC36World {
	w := &zvC36World{md5: map[string]string{}, vrfs: map[string]*vrf.VRF{}, t0: vsched.Now(), accept: accept}
	w.reg = vrf.NewVRFRegistry()
	w.vrfs[vrf.DefaultVRFName] = w.reg.CreateVRFIfNotExists(vrf.DefaultVRFName, 0)
	w.vrfs["vrf1"] = w.reg.CreateVRFIfNotExists("vrf1", 1<<32|1)
	w.srv = bgpserver.NewBGPServer(bgpserver.BGPServerConfig{RouterID: zvC36RouterID, DefaultVRF: w.vrfs[vrf.DefaultVRFName]})
	w.lm = &zvC36LM{w: w, ch: make(chan tcp.ConnWithVRF), listeners: map[string]*zvC36Listener{}}
	w.srv.SetListenerManager(w.lm)
	zvC36Cur = w
	bgpSrv, vrfReg = w.srv, w.reg // the daemon's globals
	w.srv.Start()
	vsched.Settle()
	return w
}

// reload does what configReloader does on SIGHUP with the given file.
// It returns "" or the failure: "error: …", "crash: …", "blocked".
func (w *zvC36World) reload(path string) string {
	res := ""
	h := vsched.GoNamed("reload", func() {
		crashed, what := vh.Try(func() {
			cfg, err := config.GetConfig(path)
			if err != nil {
				res = "error: " + err.Error()
				return
			}
			if err := loadConfig(cfg); err != nil {
				res = "error: " + err.Error()
			}
		})
		if crashed {
			res = "crash: " + what
		}
	})
	for i := 0; !h.Done(); i++ {
		if i >= zvC36ReloadLimit {
			return "blocked"
		}
		if i == 0 {
			vsched.Settle()
		} else {
			vsched.Advance(time.Second)
		}
	}
	return res
}

// --- observation --------------------------------------------------------------

type zvC36FamObs struct {
	RIB         string `json:"rib"`
	AddPathRecv string `json:"addpath_recv"`
	AddPathSend string `json:"addpath_send"`
	Import      string `json:"import"` // behaviour on the probe set
	Export      string `json:"export"`
}

type zvC36PeerObs struct {
	Scalars     map[string]string       `json:"scalars"`
	Caps        string                  `json:"caps"`
	Open        string                  `json:"open"`
	Fam         map[string]*zvC36FamObs `json:"fam"`      // peer level: what future sessions start with
	FSMs        []map[string]*zvC36FamObs `json:"fsms"`   // the FSMs existing after the reload
	Stored      map[string]string       `json:"stored"`   // GetPeerConfig, scalars
	StoredFam   map[string]*zvC36FamObs `json:"stored_fam"`
	DialParams  []string                `json:"dial_params"`
	Dials       int                     `json:"dials"`
	ListenerMD5 string                  `json:"listener_md5"`
	ProbeOpen   string                  `json:"probe_open"` // OPEN sent on an incoming connection (hex), "" if none
	ProbeFam    map[string]*zvC36FamObs `json:"probe_fam"`  // chains of the FSM created for the incoming connection
}

type zvC36Obs struct {
	Fail        string                   `json:"fail"` // reload failure of the last step ("" = ok)
	FailStep    int                      `json:"fail_step"`
	Peers       map[string]*zvC36PeerObs `json:"peers"`
	OrphanDials map[string]int           `json:"orphan_dials"` // dials in the window by peers that are not configured
	Answered    []string                 `json:"answered"`     // vrf|addr that got an OPEN on an incoming connection
	Rejected    []string                 `json:"rejected"`
	Status      string                   `json:"status"`
	Crash       string                   `json:"crash"`
}

var zvC36ProbePrefixes = []*bnet.Prefix{
	bnet.NewPfx(bnet.IPv4FromOctets(10, 0, 0, 0), 8).Ptr(),
	bnet.NewPfx(bnet.IPv4FromOctets(10, 1, 2, 0), 24).Ptr(),
	bnet.NewPfx(bnet.IPv4FromOctets(192, 0, 2, 0), 24).Ptr(),
	bnet.NewPfx(bnet.IPv4FromOctets(198, 51, 100, 0), 24).Ptr(),
	bnet.NewPfx(bnet.IPv6(0x20010db800010000, 0), 48).Ptr(),
}

func zvC36ProbePath() *route.Path {
	asp := types.ASPath{{Type: types.ASSequence, ASNs: []uint32{65001, 65050}}}
	return &route.Path{Type: route.BGPPathType, BGPPath: &route.BGPPath{
		BGPPathA: &route.BGPPathA{NextHop: bnet.IPv4FromOctets(10, 0, 0, 2).Ptr(), Source: bnet.IPv4FromOctets(10, 0, 0, 2).Ptr(), LocalPref: 100, EBGP: true},
		ASPath:   &asp, ASPathLen: 2}}
}

// zvC36ChainBehaviour renders what a filter chain does to the probe set.
func zvC36ChainBehaviour(c filter.Chain) string {
	var sb strings.Builder
	for _, pfx := range zvC36ProbePrefixes {
		out, rej := c.Process(pfx, zvC36ProbePath())
		if rej {
			fmt.Fprintf(&sb, "%s:reject;", pfx.String())
			continue
		}
		nh, as := "nil", ""
		if out.BGPPath != nil && out.BGPPath.BGPPathA != nil {
			if out.BGPPath.BGPPathA.NextHop != nil {
				nh = out.BGPPath.BGPPathA.NextHop.String()
			}
			if out.BGPPath.ASPath != nil {
				as = out.BGPPath.ASPath.String()
			}
			fmt.Fprintf(&sb, "%s:lp=%d,med=%d,nh=%s,as=%s;", pfx.String(), out.BGPPath.BGPPathA.LocalPref, out.BGPPath.BGPPathA.MED, nh, as)
		} else {
			fmt.Fprintf(&sb, "%s:accept-nonbgp;", pfx.String())
		}
	}
	return sb.String()
}

var (
	zvC36DrainBehaviour  = zvC36ChainBehaviour(filter.NewDrainFilterChain())
	zvC36AcceptBehaviour = zvC36ChainBehaviour(filter.Chain{})
)

func zvC36FamOf(f *bgpserver.ZvFamily) *zvC36FamObs {
	if f == nil {
		return nil
	}
	return &zvC36FamObs{RIB: f.RIB, AddPathRecv: fmt.Sprint(f.AddPathRecv), AddPathSend: fmt.Sprintf("bestonly=%v,max=%d", f.AddPathSend.BestOnly, f.AddPathSend.MaxPaths),
		Import: zvC36ChainBehaviour(f.Import), Export: zvC36ChainBehaviour(f.Export)}
}

func zvC36Fams(v4, v6 *bgpserver.ZvFamily) map[string]*zvC36FamObs {
	m := map[string]*zvC36FamObs{}
	if f := zvC36FamOf(v4); f != nil {
		m["ipv4"] = f
	}
	if f := zvC36FamOf(v6); f != nil {
		m["ipv6"] = f
	}
	return m
}

var zvC36ProbeAddrs = []string{zvC36N1, zvC36N2, zvC36N3}
var zvC36ProbeVRFs = []string{vrf.DefaultVRFName, "vrf1"}

// observe is called after the last reload has returned.
func (w *zvC36World) observe() *zvC36Obs {
	o := &zvC36Obs{Peers: map[string]*zvC36PeerObs{}, OrphanDials: map[string]int{}}
	vsched.Settle()
	for _, p := range bgpserver.ZvSnapshot(w.srv) {
		po := &zvC36PeerObs{Scalars: p.Scalars, Caps: p.Caps, Open: p.Open, Fam: zvC36Fams(p.IPv4, p.IPv6),
			Stored: p.Stored.Scalars, StoredFam: zvC36Fams(p.Stored.IPv4, p.Stored.IPv6)}
		for _, f := range p.FSMs {
			po.FSMs = append(po.FSMs, zvC36Fams(f.IPv4, f.IPv6))
		}
		po.ListenerMD5 = w.md5[p.VRF+"|"+p.Addr]
		o.Peers[p.VRF+"|"+p.Addr] = po
	}
	// the clock runs: who dials, with which parameters?
	d0 := len(w.dials)
	vsched.Advance(zvC36Window)
	params := map[string]map[string]bool{}
	if os.Getenv("VERIF_C36_DEBUG") != "" {
		for i, d := range w.dials {
			fmt.Printf("    dial %d (window starts at %d) t=%v %s %s\n", i, d0, d.At, d.Key, d.Params)
		}
	}
	for _, d := range w.dials[d0:] {
		po, ok := o.Peers[d.Key]
		if !ok {
			o.OrphanDials[d.Key]++
			continue
		}
		po.Dials++
		if params[d.Key] == nil {
			params[d.Key] = map[string]bool{}
		}
		pr := d.Params
		if d.conn != nil {
			pr += " sent=" + hex.EncodeToString(zvC36FirstMsg(d.conn.out))
		}
		params[d.Key][pr] = true
	}
	for k, m := range params {
		for p := range m {
			o.Peers[k].DialParams = append(o.Peers[k].DialParams, p)
		}
		sort.Strings(o.Peers[k].DialParams)
	}
	// an incoming connection from every address of the universe in every VRF
	for _, vn := range zvC36ProbeVRFs {
		for _, a := range zvC36ProbeAddrs {
			w.conns++
			c := &zvC36Conn{id: w.conns, local: &net.TCPAddr{IP: net.ParseIP("10.0.0.1"), Port: 179}, remote: &net.TCPAddr{IP: net.ParseIP(a), Port: 40000 + w.conns}}
			vsched.Send(w.lm.ch, tcp.ConnWithVRF{Conn: c, VRF: w.vrfs[vn]})
			vsched.Settle()
			key := vn + "|" + a
			if len(c.out) == 0 {
				o.Rejected = append(o.Rejected, key)
				continue
			}
			o.Answered = append(o.Answered, key)
			if po, ok := o.Peers[key]; ok {
				po.ProbeOpen = hex.EncodeToString(c.out)
				for _, p := range bgpserver.ZvSnapshot(w.srv) {
					if p.VRF+"|"+p.Addr == key && len(p.FSMs) > 0 {
						f := p.FSMs[len(p.FSMs)-1]
						po.ProbeFam = zvC36Fams(f.IPv4, f.IPv6)
					}
				}
			}
		}
	}
	return o
}

// zvC36FirstMsg cuts the first BGP message out of what was written on a connection.
func zvC36FirstMsg(b []byte) []byte {
	if len(b) >= 19 {
		if n := int(b[16])<<8 | int(b[17]); n >= 19 && n <= len(b) {
			return b[:n]
		}
	}
	return b
}

// zvC36Run executes one history (reloads separated by gap) on a fresh world and observes the result.
func zvC36Run(paths []string, gap time.Duration, accept bool, trace bool) *zvC36Obs {
	var o *zvC36Obs
	x := vsched.Exec(vsched.Config{MaxSteps: 2000000, Trace: trace, Sites: trace}, func() {
		w := zvC36NewWorld(accept)
		for i, p := range paths {
			if fail := w.reload(p); fail != "" {
				o = &zvC36Obs{Fail: fail, FailStep: i}
				return
			}
			if i < len(paths)-1 {
				vsched.Settle()
				if gap > 0 {
					vsched.Advance(gap)
				}
			}
		}
		o = w.observe()
	})
	zvC36Cur = nil
	if o == nil {
		o = &zvC36Obs{}
	}
	o.Status = x.Status.String()
	if x.Status != vsched.Completed {
		o.Crash = x.Crash
		if x.Status != vsched.Crash {
			o.Crash = x.Blocked + x.DivergeMsg
		}
	}
	if trace {
		for _, l := range x.Log {
			fmt.Println("   ", l)
		}
	}
	return o
}
