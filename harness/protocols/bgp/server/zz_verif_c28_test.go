package server

// C28 — BMP receiver tables mirror the monitored sessions.
// Engine E4: explicit-state BFS (vh.BFS) over all well-formed BMP message
// sequences of a small alphabet, per configuration, until the canonical state
// set closes. Every history is replayed on a fresh receiver through the real
// per-connection code (handleConnection -> Router.serve) on an in-memory
// connection; the oracle runs synchronously at the message boundary after the
// last event (inside the connection's Read), so no goroutine is needed.
//
// Reference: per VRF/family the set of (peer, prefix, path id, flavour)
// announced and not withdrawn by peers that are up - plain Go maps.

import (
	"encoding/json"
	"fmt"
	"sort"
	"strings"
	"testing"

	bnet "github.com/bio-routing/bio-rd/net"
	"github.com/bio-routing/bio-rd/routingtable"
	"github.com/bio-routing/bio-rd/routingtable/locRIB"
	"github.com/bio-routing/bio-rd/zzverif/vh"
)

// ---------------------------------------------------------------------------
// configuration
// ---------------------------------------------------------------------------

type zvC28Cfg struct {
	Layout  string  `json:"layout"`         // same_vrf | same_addr | disjoint
	V6      bool    `json:"ipv6"`           // family of the prefixes and of the peer addresses
	Post    [2]bool `json:"post"`           // policy flavour of each neighbour (false = pre-policy)
	AddPath bool    `json:"addpath"`        // sessions negotiated add-path, updates carry path identifiers
	Wide    bool    `json:"wide,omitempty"` // thorough tier: both path identifiers for both prefixes
	// NPeers: number of monitored neighbours (0 = 2). Neighbour n > 1 has host address n+1, the VRF and flavour of neighbour n%2.
	NPeers int `json:"peers,omitempty"`
	// IgnoreAS0: the receiver is configured to ignore peers in the AS of neighbour 0 (BMPReceiverConfig.IgnorePeerASNs);
	// every neighbour then has an AS of its own. Ignored neighbours contribute nothing, the others are mirrored as ever.
	IgnoreAS0 bool `json:"ignore_as_of_neighbour_0,omitempty"`
}

func (c zvC28Cfg) n() int {
	if c.NPeers > 2 {
		return c.NPeers
	}
	return 2
}

const (
	zvC28RD1 = uint64(0)
	zvC28RD2 = uint64(65000)<<32 | 1
)

type zvC28Slot struct {
	Pfx int    // 0 | 1
	ID  uint32 // path identifier
}

// zvC28World is everything derived from the configuration.
type zvC28World struct {
	cfg    zvC28Cfg
	peers  []zvBmpPeer
	srcStr []string // how the table prints the neighbour's address
	slots  []zvC28Slot
	nlri   [2]zvBmpNLRI
	pfxStr [2]string
	both   [2]int // slot indexes announced together by ann2 / withdrawn by wd2
}

func zvC28NewWorld(cfg zvC28Cfg) *zvC28World {
	w := &zvC28World{cfg: cfg, peers: make([]zvBmpPeer, cfg.n()), srcStr: make([]string, cfg.n())}
	rd := make([]uint64, cfg.n())
	host := make([]byte, cfg.n())
	for n := range rd {
		rd[n], host[n] = zvC28RD1, byte(n+1)
		switch cfg.Layout {
		case "same_addr":
			if n%2 == 1 {
				rd[n], host[n] = zvC28RD2, byte(n) // the address of the neighbour before it, in the other VRF
			}
		case "disjoint":
			if n%2 == 1 {
				rd[n] = zvC28RD2
			}
		}
	}
	for n := 0; n < cfg.n(); n++ {
		p := zvBmpPeer{RD: rd[n], V6: cfg.V6, Post: cfg.Post[n%2], AS: 65001 + uint32(n), BGPID: 0x0a000000 + uint32(host[n]), TS: 1000}
		if host[n] == 2 {
			p.AS = 65002
		} else if host[n] == 1 {
			p.AS = 65001
		} else {
			p.AS = 65000 + uint32(host[n])
		}
		if cfg.IgnoreAS0 {
			p.AS = 65001 + uint32(n)
		}
		if cfg.V6 {
			p.Addr = zvBmpAddr6(host[n])
			w.srcStr[n] = bnet.IPv6FromBlocks(0x2001, 0xdb8, 0, 0, 0, 0, 0, uint16(host[n])).String()
		} else {
			p.Addr = zvBmpAddr4(10, 0, 0, host[n])
			w.srcStr[n] = bnet.IPv4FromOctets(10, 0, 0, host[n]).String()
		}
		w.peers[n] = p
	}
	if cfg.V6 {
		w.nlri = [2]zvBmpNLRI{{Len: 48, Addr: []byte{0x20, 0x01, 0x0d, 0xb8, 0, 1}, V6: true}, {Len: 64, Addr: []byte{0x20, 0x01, 0x0d, 0xb8, 0, 1, 0, 1}, V6: true}}
		w.pfxStr[0] = bnet.NewPfx(bnet.IPv6FromBlocks(0x2001, 0xdb8, 1, 0, 0, 0, 0, 0), 48).Ptr().String()
		w.pfxStr[1] = bnet.NewPfx(bnet.IPv6FromBlocks(0x2001, 0xdb8, 1, 1, 0, 0, 0, 0), 64).Ptr().String()
	} else {
		w.nlri = [2]zvBmpNLRI{{Len: 16, Addr: []byte{10, 1}}, {Len: 24, Addr: []byte{10, 1, 1}}}
		w.pfxStr[0] = bnet.NewPfx(bnet.IPv4FromOctets(10, 1, 0, 0), 16).Ptr().String()
		w.pfxStr[1] = bnet.NewPfx(bnet.IPv4FromOctets(10, 1, 1, 0), 24).Ptr().String()
	}
	if cfg.AddPath && cfg.Wide {
		w.slots = []zvC28Slot{{0, 1}, {0, 2}, {1, 1}, {1, 2}}
		w.both = [2]int{1, 2}
	} else if cfg.AddPath {
		w.slots = []zvC28Slot{{0, 1}, {0, 2}, {1, 1}}
		w.both = [2]int{1, 2}
	} else {
		w.slots = []zvC28Slot{{0, 0}, {1, 0}}
		w.both = [2]int{0, 1}
	}
	return w
}

func (w *zvC28World) key(n, slot int) string {
	fl := "pre"
	if w.cfg.Post[n%2] {
		fl = "post"
	}
	s := w.slots[slot]
	return fmt.Sprintf("%s|%s|%d|%s", w.srcStr[n], w.pfxStr[s.Pfx], s.ID, fl)
}

func (w *zvC28World) fam() int {
	if w.cfg.V6 {
		return 6
	}
	return 4
}

// messages -------------------------------------------------------------------

func (w *zvC28World) opens(n int) (sent, recv zvBmpOpen) {
	caps := func(asn uint32) []zvBmpCap {
		c := []zvBmpCap{zvBmpCapMP(1, 1), zvBmpCapMP(2, 1), zvBmpCapASN4(asn)}
		if w.cfg.AddPath {
			c = append(c, zvBmpCapAddPath(3, 1, 2))
		}
		return c
	}
	sent = zvBmpOpen{ASN2: 65000, Hold: 90, ID: 0xc0000201, Caps: caps(65000)}
	recv = zvBmpOpen{ASN2: uint16(w.peers[n].AS), Hold: 90, ID: w.peers[n].BGPID, Caps: caps(w.peers[n].AS)}
	return
}

func (w *zvC28World) nlris(slots ...int) []zvBmpNLRI {
	var out []zvBmpNLRI
	for _, s := range slots {
		x := w.nlri[w.slots[s].Pfx]
		x.ID = w.slots[s].ID
		out = append(out, x)
	}
	return out
}

func (w *zvC28World) msgInit(z *zvBmpBuf) {
	z.initiation(zvBmpTLV{1, []byte("c28")}, zvBmpTLV{2, []byte("rtr")})
}

func (w *zvC28World) msgUp(z *zvBmpBuf, n int) {
	sent, recv := w.opens(n)
	local := zvBmpAddr4(10, 0, 0, 254)
	if w.cfg.V6 {
		local = zvBmpAddr6(0xfe)
	}
	z.peerUp(w.peers[n], local, sent, recv, nil)
}

func (w *zvC28World) msgAnnounce(z *zvBmpBuf, n int, slots ...int) {
	p := w.peers[n]
	u := zvBmpUpdate{AS4: true, AddPath: w.cfg.AddPath, ASPath: []uint32{p.AS, 64999}}
	if w.cfg.V6 {
		u.Reach6, u.NextHop6 = w.nlris(slots...), p.Addr[:]
	} else {
		u.NLRI4, u.NextHop4 = w.nlris(slots...), p.Addr[12:]
	}
	z.routeMon(p, func() { z.update(u) })
}

func (w *zvC28World) msgWithdraw(z *zvBmpBuf, n int, slots ...int) {
	p := w.peers[n]
	u := zvBmpUpdate{AS4: true, AddPath: w.cfg.AddPath}
	if w.cfg.V6 {
		u.Unreach6 = w.nlris(slots...)
	} else {
		u.Withdraw4 = w.nlris(slots...)
	}
	z.routeMon(p, func() { z.update(u) })
}

// ---------------------------------------------------------------------------
// events and the reference model
// ---------------------------------------------------------------------------

const zvC28OtherAS = 65099

type zvC28Ev struct {
	K string `json:"ev"`             // connect | init | up | upx | ann | wd | ann2 | wd2 | down | term | loss | obs (upx: neighbour 0 comes up in another AS, one the receiver does not ignore)
	N int    `json:"peer,omitempty"` // neighbour index
	S int    `json:"slot,omitempty"` // route slot index
}

func (e zvC28Ev) String() string {
	switch e.K {
	case "up", "upx", "down", "ann2", "wd2":
		return fmt.Sprintf("%s(%d)", e.K, e.N)
	case "ann", "wd":
		return fmt.Sprintf("%s(%d,%d)", e.K, e.N, e.S)
	}
	return e.K
}

type zvC28Model struct {
	connected bool
	up        []bool // up and not ignored: contributes routes
	sess      []bool // peer-up received, no peer-down since (drives which events make sense)
	ign       []bool
	have      []map[int]bool
}

func zvC28NewModel(n int) *zvC28Model {
	m := &zvC28Model{up: make([]bool, n), sess: make([]bool, n), ign: make([]bool, n), have: make([]map[int]bool, n)}
	for i := range m.have {
		m.have[i] = map[int]bool{}
	}
	return m
}

func (m *zvC28Model) apply(w *zvC28World, e zvC28Ev) {
	switch e.K {
	case "connect":
		m.connected = true
	case "up":
		m.sess[e.N] = true
		m.up[e.N] = !m.ign[e.N]
		m.have[e.N] = map[int]bool{}
	case "upx":
		m.sess[e.N], m.up[e.N] = true, true // this session's AS is not on the ignore list
		m.have[e.N] = map[int]bool{}
	case "ann":
		m.have[e.N][e.S] = true
	case "wd":
		delete(m.have[e.N], e.S)
	case "ann2":
		m.have[e.N][w.both[0]], m.have[e.N][w.both[1]] = true, true
	case "wd2":
		delete(m.have[e.N], w.both[0])
		delete(m.have[e.N], w.both[1])
	case "down":
		m.up[e.N], m.sess[e.N] = false, false
		m.have[e.N] = map[int]bool{}
	case "term", "loss":
		m.connected = false
		for i := range m.up {
			m.up[i], m.sess[i], m.have[i] = false, false, map[int]bool{}
		}
	}
}

func (m *zvC28Model) enabled(w *zvC28World) []zvC28Ev {
	if !m.connected {
		return []zvC28Ev{{K: "connect"}}
	}
	out := []zvC28Ev{{K: "init"}, {K: "obs"}}
	for n := 0; n < len(w.peers); n++ {
		if !m.sess[n] {
			out = append(out, zvC28Ev{K: "up", N: n})
			if n == 0 && w.cfg.IgnoreAS0 {
				out = append(out, zvC28Ev{K: "upx", N: n})
			}
			continue
		}
		for s := range w.slots {
			out = append(out, zvC28Ev{K: "ann", N: n, S: s}, zvC28Ev{K: "wd", N: n, S: s})
		}
		out = append(out, zvC28Ev{K: "ann2", N: n}, zvC28Ev{K: "wd2", N: n}, zvC28Ev{K: "down", N: n})
	}
	return append(out, zvC28Ev{K: "term"}, zvC28Ev{K: "loss"})
}

// want returns the reference content of table (rd, family), sorted.
func (m *zvC28Model) want(w *zvC28World, rd uint64, fam int) []string {
	var ks []string
	if fam != w.fam() {
		return ks
	}
	for n := 0; n < len(w.peers); n++ {
		if !m.up[n] || w.peers[n].RD != rd {
			continue
		}
		for s := range m.have[n] {
			ks = append(ks, w.key(n, s))
		}
	}
	sort.Strings(ks)
	return ks
}

func (m *zvC28Model) String() string {
	var sb strings.Builder
	fmt.Fprintf(&sb, "conn=%v", m.connected)
	for n := 0; n < len(m.up); n++ {
		var ss []int
		for s := range m.have[n] {
			ss = append(ss, s)
		}
		sort.Ints(ss)
		fmt.Fprintf(&sb, " n%d{up=%v/%v %v}", n, m.up[n], m.sess[n], ss)
	}
	return sb.String()
}

// ---------------------------------------------------------------------------
// running a history on the real receiver
// ---------------------------------------------------------------------------

type zvC28Obs struct {
	rd   uint64
	fam  int
	all  bool // registered with MaxPaths 100 (as the RIS server does), otherwise best path only
	o    *zvBmpObserver
	born int // index of the event that registered it
}

type zvC28Run struct {
	w    *zvC28World
	b    *BMPReceiver
	r    *Router
	obs  []*zvC28Obs
	hist []zvC28Ev
}

var zvC28RDs = []uint64{zvC28RD1, zvC28RD2}

func (x *zvC28Run) table(rd uint64, fam int) *locRIB.LocRIB {
	v := x.r.GetVRF(rd)
	if v == nil {
		return nil
	}
	if fam == 4 {
		return v.IPv4UnicastRIB()
	}
	return v.IPv6UnicastRIB()
}

func (x *zvC28Run) dump(rd uint64, fam int) []string {
	t := x.table(rd, fam)
	var ks []string
	if t == nil {
		return ks
	}
	for _, rt := range t.Dump() {
		for _, p := range rt.Paths() {
			ks = append(ks, zvBmpPathKey(rt.Prefix(), p))
		}
	}
	sort.Strings(ks)
	return ks
}

// register puts observers on every existing table that has no live one.
func (x *zvC28Run) register(at int) int {
	n := 0
	for _, rd := range zvC28RDs {
		for _, fam := range []int{4, 6} {
			t := x.table(rd, fam)
			if t == nil {
				continue
			}
			live := false
			for _, o := range x.obs {
				if o.rd == rd && o.fam == fam && !o.o.disposed {
					live = true
				}
			}
			if live {
				continue
			}
			best, all := &zvC28Obs{rd, fam, false, zvBmpNewObserver(), at}, &zvC28Obs{rd, fam, true, zvBmpNewObserver(), at}
			t.Register(best.o)
			t.RegisterWithOptions(all.o, routingtable.ClientOptions{MaxPaths: 100})
			x.obs = append(x.obs, best, all)
			n += 2
		}
	}
	return n
}

// private structural dump, for the canonical state only
func (x *zvC28Run) privateDump() string {
	var parts []string
	for _, n := range x.r.neighborManager.list() {
		s := fmt.Sprintf("nb %d/%x", n.vrfID, n.peerAddress)
		for _, af := range []*fsmAddressFamily{n.fsm.ipv4Unicast, n.fsm.ipv6Unicast} {
			if af == nil || af.adjRIBIn == nil {
				s += " -"
				continue
			}
			var ks []string
			for _, rt := range af.adjRIBIn.Dump() {
				for _, p := range rt.Paths() {
					ks = append(ks, zvBmpPathKey(rt.Prefix(), p))
				}
			}
			sort.Strings(ks)
			s += fmt.Sprintf(" %v/rx=%v", ks, af.addPathRX)
		}
		parts = append(parts, s)
	}
	// what the receiver remembers about peers it does not monitor
	for ip := range x.r.ignoredPeers {
		parts = append(parts, fmt.Sprintf("ign %x", ip))
	}
	for k := range x.r.ignoredPeerVRFs {
		parts = append(parts, fmt.Sprintf("ignv %+v", k))
	}
	sort.Strings(parts)
	return strings.Join(parts, ";")
}

func (x *zvC28Run) canon(m *zvC28Model) string {
	var sb strings.Builder
	sb.WriteString(m.String())
	for _, rd := range zvC28RDs {
		for _, fam := range []int{4, 6} {
			if x.table(rd, fam) == nil {
				continue
			}
			fmt.Fprintf(&sb, "|T%d/%d=%v", rd, fam, x.dump(rd, fam))
		}
	}
	var os []string
	for _, o := range x.obs {
		if o.o.disposed {
			continue // a disposed observer is detached: it cannot influence or observe the future
		}
		os = append(os, fmt.Sprintf("O%d/%d/%v=%v", o.rd, o.fam, o.all, o.o.keys()))
	}
	sort.Strings(os)
	sb.WriteString("|" + strings.Join(os, ";") + "|" + x.privateDump())
	return sb.String()
}

type zvC28Case struct {
	Cfg  zvC28Cfg  `json:"config"`
	Hist []zvC28Ev `json:"history"`
	Text string    `json:"history_text"`
}

func zvC28HistText(h []zvC28Ev) string {
	var ss []string
	for _, e := range h {
		ss = append(ss, e.String())
	}
	return strings.Join(ss, " ")
}

func zvC28Diff(got, want []string) (missing, extra []string) {
	cnt := map[string]int{}
	for _, k := range want {
		cnt[k]++
	}
	for _, k := range got {
		if cnt[k] > 0 {
			cnt[k]--
		} else {
			extra = append(extra, k)
		}
	}
	for _, k := range want {
		if cnt[k] > 0 {
			cnt[k]--
			missing = append(missing, k)
		}
	}
	return
}

// zvC28Step replays hist on a fresh receiver and evaluates the oracle in the
// state after its last event.
func zvC28Step(r *vh.Run, w *zvC28World, hist []zvC28Ev) (canon string, enabled []zvC28Ev, ok bool) {
	c := zvC28Case{w.cfg, hist, zvC28HistText(hist)}
	ok = true
	base := vh.Sig("addpath", fmt.Sprint(w.cfg.AddPath), "family", fmt.Sprint(w.fam()))
	viol := func(sig map[string]string, f string, a ...any) {
		ok = false
		for k, v := range base {
			sig[k] = v
		}
		r.Violation(sig, c, f, a...)
	}
	rcfg := BMPReceiverConfig{}
	if w.cfg.IgnoreAS0 {
		rcfg.IgnorePeerASNs = []uint32{w.peers[0].AS}
	}
	b, rt, err := zvBmpNewRouter(rcfg)
	if err != nil {
		r.Fatalf("cannot construct the receiver: %v", err)
	}
	x := &zvC28Run{w: w, b: b, r: rt, hist: hist}
	m := zvC28NewModel(len(w.peers))
	if w.cfg.IgnoreAS0 {
		m.ign[0] = true
	}
	last := "start"
	if len(hist) > 0 {
		last = hist[len(hist)-1].K
	}

	// check compares the real tables and observers with the model. phase is
	// "live" (inside the connection) or "closed" (after serve returned).
	check := func(phase string) {
		for _, rd := range zvC28RDs {
			for _, fam := range []int{4, 6} {
				got, want := x.dump(rd, fam), m.want(w, rd, fam)
				if len(got) > 0 {
					r.Outcome(fmt.Sprintf("%s/%d/%v=%v", w.cfg.Layout, fam, w.cfg.Post, got))
				}
				missing, extra := zvC28Diff(got, want)
				if len(want) > 0 {
					r.Count("table_nonempty_checked", 1)
				}
				if len(want) > 1 {
					r.Count("table_multi_path_checked", 1)
				}
				if len(missing) == 0 && len(extra) == 0 {
					continue
				}
				kind := "missing"
				if len(missing) == 0 {
					kind = "extra"
				} else if len(extra) > 0 {
					kind = "missing_and_extra"
				}
				clause := "table"
				if (last == "down" || last == "term" || last == "loss") && len(extra) > 0 {
					clause = "stale_after_" + last
				}
				viol(vh.Sig("clause", clause, "kind", kind, "last", last), "after [%s] (%s) table %s/ipv%d holds %v, the reference says %v (missing %v, extra %v)",
					c.Text, phase, zvC28VrfName(rd), fam, got, want, missing, extra)
			}
		}
		// observers: nothing of a peer that is down (or of an ended session) may remain in a live observer's view
		upSrc := map[string]bool{}
		for n := 0; n < len(w.peers); n++ {
			if m.up[n] {
				upSrc[fmt.Sprintf("%d|%s", w.peers[n].RD, w.srcStr[n])] = true
			}
		}
		for _, o := range x.obs {
			if o.o.disposed {
				r.Count("observer_disposed_seen", 1)
				continue
			}
			if phase == "closed" && len(o.o.have) == 0 {
				r.Count("observer_emptied_seen", 1)
			}
			var stale []string
			for _, k := range o.o.keys() {
				src := k[:strings.Index(k, "|")]
				if !upSrc[fmt.Sprintf("%d|%s", o.rd, src)] {
					stale = append(stale, k)
				}
			}
			if len(o.o.have) > 0 {
				r.Count("observer_view_nonempty_checked", 1)
			}
			if len(stale) > 0 {
				viol(vh.Sig("clause", "observer", "last", last, "observer", map[bool]string{true: "all_paths", false: "best_only"}[o.all]),
					"after [%s] (%s) the observer registered (at event %d) on table %s/ipv%d was neither disposed nor told to remove %v", c.Text, phase, o.born, zvC28VrfName(o.rd), o.fam, stale)
			}
		}
	}

	// split the history into connections
	i := 0
	for i < len(hist) && ok {
		if hist[i].K != "connect" {
			r.Fatalf("history does not start a connection at event %d: %s", i, c.Text)
		}
		// drop observers that were disposed with the previous connection
		var keep []*zvC28Obs
		for _, o := range x.obs {
			if !o.o.disposed {
				keep = append(keep, o)
			}
		}
		x.obs = keep
		z := &zvBmpBuf{}
		type step struct {
			ev  int // index in hist
			end int // stream offset after its message (messages) or of the preceding message (actions)
		}
		var steps []step
		j := i
		closedBy := ""
		origAS0 := w.peers[0].AS
		for ; j < len(hist); j++ {
			e := hist[j]
			if e.K == "connect" && j > i {
				break
			}
			switch e.K {
			case "connect", "init":
				w.msgInit(z)
			case "up":
				if e.N == 0 {
					w.peers[0].AS = origAS0
				}
				w.msgUp(z, e.N)
			case "upx":
				w.peers[0].AS = zvC28OtherAS // the per-peer headers of this session's messages carry it
				w.msgUp(z, e.N)
			case "ann":
				w.msgAnnounce(z, e.N, e.S)
			case "wd":
				w.msgWithdraw(z, e.N, e.S)
			case "ann2":
				w.msgAnnounce(z, e.N, w.both[0], w.both[1])
			case "wd2":
				w.msgWithdraw(z, e.N, w.both[0], w.both[1])
			case "down":
				z.peerDown(w.peers[e.N], 4, nil)
			case "term":
				z.termination(zvBmpTLV{0, []byte("bye")}, zvBmpTLV{1, []byte{0, 0}})
				closedBy = "term"
			case "loss":
				closedBy = "loss"
			case "obs":
			}
			steps = append(steps, step{j, len(z.B)})
			if closedBy != "" {
				j++
				break
			}
		}
		w.peers[0].AS = origAS0
		isLastSeg := j == len(hist)
		conn := zvBmpNewConn(z.B)
		// boundaries: one per distinct message end, in order
		for _, s := range steps {
			if len(conn.bounds) == 0 || conn.bounds[len(conn.bounds)-1] != s.end {
				conn.bounds = append(conn.bounds, s.end)
			}
		}
		next := 0 // next step to account for
		apply := func(idx int) {
			e := hist[idx]
			if idx == len(hist)-1 && (e.K == "down" || e.K == "term" || e.K == "loss") {
				routes := 0
				for n := 0; n < len(w.peers); n++ {
					if e.K != "down" || n == e.N {
						routes += len(m.have[n])
					}
				}
				if routes > 0 {
					r.Count("teardown_with_routes_checked", 1)
				}
				for _, o := range x.obs {
					if !o.o.disposed && len(o.o.have) > 0 {
						r.Count("teardown_with_observer_view_checked", 1)
						break
					}
				}
			}
			m.apply(w, e)
		}
		conn.onBound = func(k int) bool {
			end := conn.bounds[k]
			for next < len(steps) && steps[next].end <= end {
				e := hist[steps[next].ev]
				if e.K == "loss" {
					break // the loss itself is the EOF that follows
				}
				apply(steps[next].ev)
				if e.K == "obs" {
					if x.register(steps[next].ev) > 0 {
						r.Count("observers_registered", 1)
					}
				}
				next++
			}
			if isLastSeg && next == len(steps) {
				// state after the last event of the history, still inside the connection
				if p := zvBmpCatch(func() { check("live") }); p != nil {
					viol(vh.Sig("clause", "panic", "site", p.Site, "last", last), "inspecting the tables after [%s] panicked in %s: %s", c.Text, p.Site, p.Text)
				}
				if ok && closedBy == "" {
					canon = x.canon(m)
				}
			}
			return true
		}
		p := zvBmpCatch(func() { zvBmpServe(b, rt, conn) })
		if p != nil {
			viol(vh.Sig("clause", "panic", "site", p.Site, "via", p.Via, "last", last), "receiver panicked in %s (via %s) while serving [%s]: %s", p.Site, p.Via, c.Text, p.Text)
			return "panic:" + p.Site, nil, false
		}
		if next < len(steps) && hist[steps[next].ev].K == "loss" {
			apply(steps[next].ev)
			next++
		}
		if next != len(steps) {
			viol(vh.Sig("clause", "not_read", "last", last), "the receiver stopped reading the connection before event %d of [%s]", steps[next].ev, c.Text)
			return "notread", nil, false
		}
		if closedBy != "" && isLastSeg && ok {
			if p := zvBmpCatch(func() { check("closed") }); p != nil {
				viol(vh.Sig("clause", "panic", "site", p.Site, "last", last), "inspecting the tables after [%s] panicked in %s: %s", c.Text, p.Site, p.Text)
			}
			canon = x.canon(m)
		}
		i = j
	}
	if len(hist) == 0 {
		canon = x.canon(m)
	}
	if !ok {
		return canon + "|violation", nil, false
	}
	return canon, m.enabled(w), true
}

func zvC28VrfName(rd uint64) string { return fmt.Sprintf("%d:%d", rd>>32, rd&0xffffffff) }

// ---------------------------------------------------------------------------
// driver
// ---------------------------------------------------------------------------

func zvC28Configs(thorough bool) []zvC28Cfg {
	var out []zvC28Cfg
	flavours := [][2]bool{{false, false}, {true, true}, {false, true}}
	if thorough {
		flavours = append(flavours, [2]bool{true, false})
	}
	for _, layout := range []string{"same_vrf", "same_addr", "disjoint"} {
		for _, v6 := range []bool{false, true} {
			for _, ap := range []bool{false, true} {
				for _, post := range flavours {
					out = append(out, zvC28Cfg{Layout: layout, V6: v6, Post: post, AddPath: ap, Wide: thorough && ap})
				}
			}
		}
	}
	// the receiver configured to ignore the AS of neighbour 0
	for _, layout := range []string{"same_vrf", "same_addr", "disjoint"} {
		for _, v6 := range []bool{false, true} {
			if v6 && !thorough {
				continue
			}
			out = append(out, zvC28Cfg{Layout: layout, V6: v6, Post: [2]bool{false, false}, IgnoreAS0: true})
		}
	}
	return out
}

// zvC28ManyPeers: more than two monitored neighbours (the BFS alphabet has two): per configuration one long history -
// all neighbours come up and announce, observers register, the session ends (termination | connection loss | every
// neighbour goes down one by one), the router reconnects and everything is replayed - with the oracle evaluated after
// every event (every prefix of the history is replayed on a fresh receiver).
func zvC28ManyPeers(r *vh.Run, idx int) {
	ns := []int{3, 7}
	if r.Thorough() {
		ns = []int{3, 4, 5, 7, 8, 9}
	}
	for _, n := range ns {
		for _, layout := range []string{"same_vrf", "disjoint"} {
			for _, v6 := range []bool{false, true} {
				for _, end := range []string{"term", "loss", "downs"} {
					idx++
					if !r.Mine(idx) {
						continue
					}
					if r.OutOfBudget() {
						r.Cap("time budget: not all many-neighbour histories run")
						return
					}
					cfg := zvC28Cfg{Layout: layout, V6: v6, Post: [2]bool{false, true}, NPeers: n}
					w := zvC28NewWorld(cfg)
					var h []zvC28Ev
					session := func() {
						h = append(h, zvC28Ev{K: "connect"})
						for k := 0; k < n; k++ {
							h = append(h, zvC28Ev{K: "up", N: k})
						}
						for k := 0; k < n; k++ {
							h = append(h, zvC28Ev{K: "ann", N: k, S: k % len(w.slots)})
						}
						h = append(h, zvC28Ev{K: "obs"})
					}
					session()
					switch end {
					case "downs":
						for k := 0; k < n; k++ {
							h = append(h, zvC28Ev{K: "down", N: k})
						}
						h = append(h, zvC28Ev{K: "loss"})
					default:
						h = append(h, zvC28Ev{K: end})
					}
					session()
					h = append(h, zvC28Ev{K: "loss"})
					for k := 1; k <= len(h); k++ {
						if _, _, ok := zvC28Step(r, w, h[:k]); !ok {
							break
						}
						r.Transitions(1)
					}
					r.Count("many_neighbour_histories", 1)
					r.Eval(1)
				}
			}
		}
	}
}

var zvC28Required = []string{"many_neighbour_histories", "table_nonempty_checked", "table_multi_path_checked", "observers_registered", "observer_view_nonempty_checked",
	"teardown_with_routes_checked", "teardown_with_observer_view_checked"}

func TestVerifC28(t *testing.T) {
	r := vh.Start(t, "C28")
	defer r.Finish()
	zvBmpQuiet()
	r.Rule("per configuration (neighbour layout same-VRF | same-address-two-VRFs | disjoint x IPv4|IPv6 x add-path off|on x flavours pre/pre, post/post, pre/post): BFS over all " +
		"well-formed sequences of connect(+initiation), initiation, peer-up(p), announce/withdraw(p, route slot), two-route announce/withdraw(p), peer-down(p), termination, connection loss, " +
		"observe (register table observers) until the canonical state set closes; oracle in every state; plus, for 3 and 7 (thorough 3..9) neighbours, one long history per configuration (all up, all announce, session ends by termination | loss | all peer-downs, reconnect, replay) with the oracle after every event; evaluations = configurations explored, non-trivial = all of them")
	r.Require(zvC28Required...)
	if r.IsReplay() {
		var c zvC28Case
		r.ReplayCase(&c)
		w := zvC28NewWorld(c.Cfg)
		for n := 0; n <= len(c.Hist); n++ { // every prefix of a history is a history
			zvC28Step(r, w, c.Hist[:n])
		}
		for _, k := range zvC28Required {
			r.Count(k, 1)
		}
		return
	}
	cfgs := zvC28Configs(r.Thorough())
	r.Extra("configurations_total", len(cfgs))
	depth := 0
	if !r.Thorough() {
		depth = 9
	}
	for i, cfg := range cfgs {
		if !r.Mine(i) {
			continue
		}
		if r.OutOfBudget() {
			r.Cap("time budget: not all configurations explored")
			break
		}
		w := zvC28NewWorld(cfg)
		j, _ := json.Marshal(cfg)
		bfs := vh.BFS[zvC28Ev]{R: r, MaxDepth: depth, Label: string(j), Step: func(h []zvC28Ev) (string, []zvC28Ev, bool) {
			return zvC28Step(r, w, h)
		}}
		bfs.Explore()
		r.Eval(1)
		r.Nontrivial(1)
	}
	zvC28ManyPeers(r, len(cfgs))
}
