package server

// Session-level test world shared by the FSM harnesses (C07, C10, C18–C24,
// C25/C26 session scenarios): a real bgpServer with real peers/FSMs, driven
// through scheduler-aware in-memory connections, a fake listener manager and
// virtual time. Runs only inside a vsched execution; the harness's main thread
// plays the environment (remote speakers, operator, clock).

import (
	"errors"
	"sync"
	"fmt"
	"io"
	"net"
	"time"

	bnet "github.com/bio-routing/bio-rd/net"
	"github.com/bio-routing/bio-rd/net/tcp"
	"github.com/bio-routing/bio-rd/routingtable"
	"github.com/bio-routing/bio-rd/routingtable/filter"
	"github.com/bio-routing/bio-rd/routingtable/locRIB"
	"github.com/bio-routing/bio-rd/routingtable/vrf"
	blog "github.com/bio-routing/bio-rd/util/log"
	"github.com/bio-routing/bio-rd/zzverif/vsched"
)

// zvConn is a scheduler-aware net.Conn.
type zvConn struct {
	mu       sync.Mutex // a real mutex (this file is not instrumented): the harness's own shared state must not look racy under -race
	id       int
	name     string
	in       []byte
	eof      bool
	readErr  error
	writeErr error
	closed   bool
	out      []byte
	writesAfterClose int
	local, remote net.Addr
	// stallWrites models a full send buffer: Write blocks (a visible, blocking scheduler operation) until the
	// harness clears the flag or the connection is closed
	stallWrites bool
	// writePoint makes every Write a (never blocking) scheduler operation: other threads may run between the caller's
	// previous synchronisation operation and the moment the bytes are on the wire
	writePoint bool
	// onWrite, when set, sees every Write at its entry (before a stalled Write blocks)
	onWrite func(p []byte)
}

// zvConnWritePoint is the always-enabled operation of a connection with writePoint set.
type zvConnWritePoint struct{}

//go:norace
func (zvConnWritePoint) OpEnabled(int) bool { return true }

//go:norace
func (zvConnWritePoint) OpApply(int) {}

// zvConnWriter is the blocking-write operation of a stalled connection.
type zvConnWriter struct{ c *zvConn }

//go:norace
func (w zvConnWriter) OpEnabled(int) bool { return !w.c.stallWrites || w.c.closed }

//go:norace
func (w zvConnWriter) OpApply(int) {}

//go:norace
func (c *zvConn) stalled() bool { return c.stallWrites }

func (c *zvConn) setStall(v bool) {
	c.mu.Lock()
	c.stallWrites = v
	c.mu.Unlock()
}

func (c *zvConn) Read(p []byte) (int, error) {
	vsched.DoObj(vsched.KIO, fmt.Sprintf("conn%d.Read", c.id), c)
	c.mu.Lock()
	defer c.mu.Unlock()
	if c.closed {
		return 0, errors.New("use of closed network connection")
	}
	if len(c.in) > 0 {
		n := copy(p, c.in)
		c.in = c.in[n:]
		return n, nil
	}
	if c.readErr != nil {
		return 0, c.readErr
	}
	return 0, io.EOF
}

// OpEnabled is evaluated by the scheduler's controller goroutine (readable?). It is //go:norace and takes no lock so that
// it neither shows up in nor feeds happens-before edges to the race detector; the cooperative scheduler serialises it.
//
//go:norace
func (c *zvConn) OpEnabled(int) bool {
	return len(c.in) > 0 || c.eof || c.closed || c.readErr != nil
}

//go:norace
func (c *zvConn) OpApply(int) {}

func (c *zvConn) Write(p []byte) (int, error) {
	if c.onWrite != nil {
		c.onWrite(p)
	}
	if c.stalled() {
		vsched.DoObj(vsched.KIO, fmt.Sprintf("conn%d.Write(stalled)", c.id), zvConnWriter{c})
	} else if c.writePoint {
		vsched.DoObj(vsched.KIO, fmt.Sprintf("conn%d.Write", c.id), zvConnWritePoint{})
	}
	c.mu.Lock()
	defer c.mu.Unlock()
	if c.closed {
		c.writesAfterClose++
		return 0, errors.New("use of closed network connection")
	}
	if c.writeErr != nil {
		return 0, c.writeErr
	}
	c.out = append(c.out, p...)
	return len(p), nil
}

func (c *zvConn) Close() error {
	c.mu.Lock()
	defer c.mu.Unlock()
	if c.closed {
		return errors.New("already closed")
	}
	c.closed = true
	return nil
}

func (c *zvConn) LocalAddr() net.Addr                { return c.local }
func (c *zvConn) RemoteAddr() net.Addr               { return c.remote }
func (c *zvConn) SetDeadline(t time.Time) error      { return nil }
func (c *zvConn) SetReadDeadline(t time.Time) error  { return nil }
func (c *zvConn) SetWriteDeadline(t time.Time) error { return nil }

func (c *zvConn) isClosed() bool {
	c.mu.Lock()
	defer c.mu.Unlock()
	return c.closed
}

// deliver makes bytes available to the reader (environment action).
func (c *zvConn) deliver(b []byte) {
	c.mu.Lock()
	c.in = append(c.in, b...)
	c.mu.Unlock()
}

// take returns and clears what was written so far.
func (c *zvConn) take() []byte {
	c.mu.Lock()
	defer c.mu.Unlock()
	b := c.out
	c.out = nil
	return b
}

// zvLM is a fake tcp.ListenerManagerI.
type zvLM struct{ ch chan tcp.ConnWithVRF }

func (l *zvLM) ListenAddrsPerVRF(*vrf.VRF) []string        { return nil }
func (l *zvLM) GetListeners(*vrf.VRF) []tcp.ListenerI       { return nil }
func (l *zvLM) CreateListenersIfNotExists(*vrf.VRF) error   { return nil }
func (l *zvLM) AcceptCh() chan tcp.ConnWithVRF              { return l.ch }

// zvCurWorld is the world of the running execution (used by the dial redirect).
var zvCurWorld *zvWorld

// zvDial replaces tcp.Dial in the instrumented fsm.go.
func zvDial(laddr, raddr *net.TCPAddr, ttl uint8, md5 string, noRoute bool, bindDev string) (net.Conn, error) {
	w := zvCurWorld
	if w == nil {
		return nil, errors.New("no world")
	}
	w.mu.Lock()
	w.dials++
	w.lastDialTTL = ttl
	fail := w.dialFail
	w.mu.Unlock()
	if fail {
		return nil, errors.New("connection refused")
	}
	c := w.newConn(raddr.IP, "dial")
	return c, nil
}

type zvPeerOpts struct {
	Addr        byte // last octet of 10.0.0.x
	IBGP        bool
	Passive     bool
	Hold        time.Duration
	AddPathRX   bool
	AddPathTX   uint // 0 = best only, n = MaxPaths n
	IPv6        bool
	RRClient    bool
	ClusterID   uint32 // cluster_id as configured (a group's cluster_id reaches every neighbour of the group, client or not)
	RSClient    bool
	Role        uint8
	RoleStrict  bool
	Import      filter.Chain
	Export      filter.Chain
	MPv4        bool
}

const (
	zvLocalAS  = 65000
	zvRemoteAS = 65009
	zvRouterID = 0x01010101
)

type zvWorld struct {
	mu    sync.Mutex // guards conns/dials/onFSMLog: they are touched from FSM goroutines (dial redirect, log hook) and from the harness
	srv   *bgpServer
	vrf   *vrf.VRF
	rib4  *locRIB.LocRIB
	rib6  *locRIB.LocRIB
	lm    *zvLM
	conns []*zvConn
	dials int
	lastDialTTL uint8
	dialFail bool
	onFSMLog func(peer, oldState, newState, reason string)
}

func zvNewWorld() *zvWorld {
	w := &zvWorld{}
	w.vrf = vrf.NewUntrackedVRF(vrf.DefaultVRFName, 0)
	w.rib4, _ = w.vrf.CreateIPv4UnicastLocRIB("inet.0")
	w.rib6, _ = w.vrf.CreateIPv6UnicastLocRIB("inet6.0")
	lp := uint32(100)
	w.srv = newBGPServer(BGPServerConfig{RouterID: zvRouterID, DefaultVRF: w.vrf, DefaultLocalPreference: &lp})
	w.lm = &zvLM{ch: make(chan tcp.ConnWithVRF)}
	w.srv.SetListenerManager(w.lm)
	zvCurWorld = w
	return w
}

func zvPeerIP(o zvPeerOpts) *bnet.IP { return bnet.IPv4FromOctets(10, 0, 0, o.Addr).Dedup() }

func (w *zvWorld) peerConfig(o zvPeerOpts) PeerConfig {
	imp, exp := o.Import, o.Export
	if imp == nil {
		imp = filter.NewAcceptAllFilterChain()
	}
	if exp == nil {
		exp = filter.NewAcceptAllFilterChain()
	}
	peerAS := uint32(zvRemoteAS)
	if o.IBGP {
		peerAS = zvLocalAS
	}
	hold := o.Hold
	if hold == 0 {
		hold = 90 * time.Second
	}
	send := routingtable.ClientOptions{BestOnly: true}
	if o.AddPathTX > 0 {
		send = routingtable.ClientOptions{MaxPaths: o.AddPathTX}
	}
	c := PeerConfig{
		AdminEnabled: true, ReconnectInterval: 15 * time.Second, KeepAlive: hold / 3, HoldTime: hold,
		LocalAddress: bnet.IPv4FromOctets(10, 0, 0, 1).Dedup(), PeerAddress: zvPeerIP(o),
		LocalAS: zvLocalAS, PeerAS: peerAS, Passive: o.Passive, RouterID: zvRouterID,
		RouteServerClient: o.RSClient, RouteReflectorClient: o.RRClient, PeerRole: o.Role, PeerRoleStrictMode: o.RoleStrict,
		AdvertiseIPv4MultiProtocol: o.MPv4,
		RouteReflectorClusterID:    o.ClusterID,
		VRF:  w.vrf,
		IPv4: &AddressFamilyConfig{ImportFilterChain: imp, ExportFilterChain: exp, AddPathSend: send, AddPathRecv: o.AddPathRX},
	}
	if o.IPv6 {
		c.IPv6 = &AddressFamilyConfig{ImportFilterChain: imp, ExportFilterChain: exp, AddPathSend: send, AddPathRecv: o.AddPathRX}
	}
	return c
}

func (w *zvWorld) addPeer(o zvPeerOpts) *peer {
	if err := w.srv.AddPeer(w.peerConfig(o)); err != nil {
		panic(err)
	}
	return w.srv.peers.get(w.vrf, zvPeerIP(o))
}

func (w *zvWorld) newConn(remote net.IP, name string) *zvConn {
	w.mu.Lock()
	defer w.mu.Unlock()
	c := &zvConn{id: len(w.conns), name: name,
		local:  &net.TCPAddr{IP: net.IPv4(10, 0, 0, 1), Port: 179},
		remote: &net.TCPAddr{IP: remote, Port: 40000 + len(w.conns)}}
	w.conns = append(w.conns, c)
	return c
}

// incoming delivers an incoming TCP connection from the given peer to the server.
func (w *zvWorld) incoming(o zvPeerOpts) *zvConn {
	c := w.newConn(net.IPv4(10, 0, 0, o.Addr), "accept")
	vsched.Send(w.lm.ch, tcp.ConnWithVRF{Conn: c, VRF: w.vrf})
	vsched.Settle()
	return c
}

// zvRemoteOpen is the default OPEN the modelled remote speaker sends.
func zvRemoteOpen(o zvPeerOpts, id uint32) zvwOpen {
	as := uint32(zvRemoteAS)
	if o.IBGP {
		as = zvLocalAS
	}
	op := zvwOpen{Version: 4, AS: uint16(as), Hold: 90, ID: id, Caps: []zvwCap{zvwCapASN4(as)}}
	if o.IPv6 {
		op.Caps = append(op.Caps, zvwCapMP(2, 1))
	}
	if o.MPv4 {
		op.Caps = append(op.Caps, zvwCapMP(1, 1))
	}
	var sr byte
	if o.AddPathRX {
		sr |= 2 // remote sends
	}
	if o.AddPathTX > 0 {
		sr |= 1 // remote receives
	}
	if sr != 0 {
		op.Caps = append(op.Caps, zvwCapAddPath(1, 1, sr))
		if o.IPv6 {
			op.Caps = append(op.Caps, zvwCapAddPath(2, 1, sr))
		}
	}
	return op
}

// activeConnect drives an active peer from Idle to OpenSent and returns the connection it dialled.
func (w *zvWorld) activeConnect() *zvConn {
	n := len(w.connsSnapshot())
	vsched.Advance(15 * time.Second) // reconnect interval: Idle -> AutomaticStart -> dial
	cs := w.connsSnapshot()
	if len(cs) == n {
		return nil
	}
	return cs[len(cs)-1]
}

// establish performs the remote side of the handshake on c.
func (w *zvWorld) establish(c *zvConn, o zvPeerOpts, id uint32) {
	c.deliver(zvRemoteOpen(o, id).bytes())
	vsched.Settle()
	c.deliver(zvwKeepalive())
	vsched.Settle()
}

func zvFSMState(f *FSM) string {
	if f == nil {
		return "none"
	}
	return stateName(f.state)
}

// zvStop lets all FSM goroutines finish what they can.
func zvSettle() { vsched.Settle() }

// zvLogger captures the FSM's own state-change log lines (no source hook needed).
type zvLogger struct{ fields map[string]interface{} }

func (l zvLogger) Errorf(string, ...interface{}) {}
func (l zvLogger) Infof(string, ...interface{})  {}
func (l zvLogger) Debugf(string, ...interface{}) {}
func (l zvLogger) Error(string)                  {}
func (l zvLogger) Debug(string)                  {}
func (l zvLogger) Info(msg string) {
	if zvNoHooks || msg != "FSM: Neighbor state change" || zvCurWorld == nil || zvCurWorld.onFSMLog == nil {
		return
	}
	zvCurWorld.onFSMLog(fmt.Sprint(l.fields["peer"]), fmt.Sprint(l.fields["last_state"]), fmt.Sprint(l.fields["new_state"]), fmt.Sprint(l.fields["reason"]))
}
func (l zvLogger) WithFields(f blog.Fields) blog.LoggerInterface { return zvLogger{fields: f} }
func (l zvLogger) WithError(error) blog.LoggerInterface         { return l }

func init() { blog.SetLogger(zvLogger{}) }

// zvNoHooks switches the FSM log hook off (race-mode harnesses: the hook shares harness state with FSM goroutines).
var zvNoHooks bool

// connsSnapshot returns the connections created so far.
func (w *zvWorld) connsSnapshot() []*zvConn {
	w.mu.Lock()
	defer w.mu.Unlock()
	return append([]*zvConn{}, w.conns...)
}

func (w *zvWorld) dialCount() int {
	w.mu.Lock()
	defer w.mu.Unlock()
	return w.dials
}
