#!/bin/sh
# tools/mutall.sh <ID>... — run tools/mutcheck.sh for every diff under mutations/<ID>/ (skips revert-* diffs that no longer apply)
cd /verif
for id in "$@"; do
  for d in mutations/$id/*.diff; do
    [ -f "$d" ] || continue
    r=$(tools/mutcheck.sh $id $d 2>&1 | tail -2 | tr '\n' ' ' | cut -c1-260)
    echo "$id $(basename $d): $r"
  done
done
