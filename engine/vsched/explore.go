package vsched

import "fmt"

// Explorer is the stateless schedule explorer (engine E3): depth-first search
// over choice sequences with a deviation (preemption) bound, iterative context
// bounding in the CHESS style. Every execution runs to completion; after a
// replayed prefix the default option 0 is taken everywhere.
type Explorer struct {
	Bound int
	Cfg   Config
	// Body builds fresh objects and runs the scenario as the main thread.
	Body func()
	// Check is the oracle, evaluated after every execution (on the controller
	// goroutine, outside the execution).
	Check func(x *Execution)
	// Shard / NShards split the level-1 subtrees over processes.
	Shard, NShards int
	// Stop is polled between executions; returning true ends the search early (capped).
	Stop func() bool
	// CheckRootOnAllShards: evaluate Check on the default schedule in every shard (oracles with process-wide
	// side effects, such as the race detector's log, must see every execution of their own process).
	CheckRootOnAllShards bool
	// MaxExecutions caps the search (0 = none).
	MaxExecutions int

	Executions int
	Capped     bool
	MaxPoints  int
	Err        error // harness error (divergence, nondeterminism)
	rootPoints int
}

//go:norace
func (e *Explorer) run(prefix []int) *Execution {
	cfg := e.Cfg
	cfg.Prefix = prefix
	x := Exec(cfg, e.Body)
	e.Executions++
	if len(x.Points) > e.MaxPoints {
		e.MaxPoints = len(x.Points)
	}
	if x.Status == Diverged && e.Err == nil {
		e.Err = fmt.Errorf("schedule %v diverged while replaying its prefix: %s", prefix, x.DivergeMsg)
	}
	return x
}

//go:norace
func costBefore(x *Execution, i int) int {
	c := 0
	for k := 0; k < i; k++ {
		c += x.Points[k].Costs[x.Points[k].Chosen]
	}
	return c
}

// Run explores. It first executes the default schedule twice and compares the
// recorded choice points (determinism self-check).
//
//go:norace
func (e *Explorer) Run() {
	if e.NShards == 0 {
		e.NShards = 1
	}
	root := e.run(nil)
	if (e.Shard == 0 || e.CheckRootOnAllShards) && e.Check != nil {
		e.Check(root)
	}
	again := e.run(nil)
	if len(root.Points) != len(again.Points) {
		e.Err = fmt.Errorf("nondeterministic harness: the default schedule has %d choice points, then %d", len(root.Points), len(again.Points))
		return
	}
	for i := range root.Points {
		if root.Points[i].Fprint != again.Points[i].Fprint {
			e.Err = fmt.Errorf("nondeterministic harness: choice point %d differs between two runs of the default schedule (%q vs %q)", i, root.Points[i].Fprint, again.Points[i].Fprint)
			return
		}
	}
	k := 0
	for i := 0; i < len(root.Points) && e.Err == nil; i++ {
		before := costBefore(root, i)
		for alt := 1; alt < root.Points[i].N; alt++ {
			if before+root.Points[i].Costs[alt] > e.Bound {
				continue
			}
			mine := k%e.NShards == e.Shard
			k++
			if !mine {
				continue
			}
			p := append(append([]int{}, root.Choices[:i]...), alt)
			e.explore(p)
		}
	}
}

//go:norace
func (e *Explorer) explore(prefix []int) {
	if e.Err != nil || e.Capped {
		return
	}
	if (e.Stop != nil && e.Stop()) || (e.MaxExecutions > 0 && e.Executions >= e.MaxExecutions) {
		e.Capped = true
		return
	}
	x := e.run(prefix)
	if e.Err != nil {
		return
	}
	if e.Check != nil {
		e.Check(x)
	}
	for i := len(prefix); i < len(x.Points); i++ {
		before := costBefore(x, i)
		for alt := 1; alt < x.Points[i].N; alt++ {
			if before+x.Points[i].Costs[alt] > e.Bound {
				continue
			}
			p := append(append([]int{}, x.Choices[:i]...), alt)
			e.explore(p)
			if e.Err != nil || e.Capped {
				return
			}
		}
	}
}

// Replay runs one recorded schedule with tracing on.
//
//go:norace
func Replay(cfg Config, schedule []int, body func()) *Execution {
	cfg.Prefix = schedule
	cfg.Trace = true
	cfg.Sites = true
	return Exec(cfg, body)
}
