------------------------------ MODULE BGPFSM ------------------------------
(***************************************************************************)
(* Abstract RFC 4271 section 8 session FSM, restricted to what property    *)
(* C23 talks about: the state, whether the transport connection of the     *)
(* session is open, whether the session's routes are attached to the       *)
(* Loc-RIB, and whether UPDATEs are being processed.  Where the RFC leaves *)
(* options (DelayOpen, passive start, what to do when the OPEN cannot be   *)
(* sent) the model allows every option.  `act' is a history variable that  *)
(* makes every edge of the dumped state graph carry its event.             *)
(***************************************************************************)
EXTENDS Naturals

VARIABLES st, conn, att, upd, pst, act

vars == <<st, conn, att, upd, pst, act>>

States == {"idle", "connect", "active", "openSent", "openConfirm", "established", "cease"}
Conns  == {"none", "open", "closed"}

Init == /\ st = "idle" /\ conn = "none" /\ att = FALSE /\ upd = 0 /\ pst = "idle" /\ act = "Init"

\* generic step helper
Step(a, s2, c2, a2, u2) ==
    /\ act' = a /\ pst' = st /\ st' = s2 /\ conn' = c2 /\ att' = a2 /\ upd' = u2

Closed == "closed"

\* ---------------------------------------------------------------- Idle
IdleStart   == st = "idle" /\ \E s2 \in {"connect", "active"} : Step("Start", s2, conn, FALSE, upd)
IdleCease   == st = "idle" /\ Step("Cease", "cease", conn, FALSE, upd)

\* ------------------------------------------------------- Connect / Active
ConnActive(s) ==
    /\ st = s
    /\ \/ Step("ManualStop", "idle", conn, FALSE, upd)
       \/ Step("ConnectRetryExpires", "connect", conn, FALSE, upd)
       \/ Step("TcpConnected", "openSent", "open", FALSE, upd)                 \* connection up, OPEN sent
       \/ \E c2 \in Conns : Step("TcpConnectedSendFails", "idle", c2, FALSE, upd) \* RFC is silent on the socket
       \/ \E s2 \in {"active", "idle", "connect"} : Step("TcpFails", s2, conn, FALSE, upd)
       \/ \E c2 \in {conn, Closed} : Step("Cease", "cease", c2, FALSE, upd)

\* ---------------------------------------------------------------- OpenSent
OpenSent ==
    /\ st = "openSent"
    /\ \/ \E a \in {"ManualStop", "AutomaticStop", "HoldTimerExpires", "RecvOpenBad", "RecvNotification",
                    "RecvMalformed", "RecvUnexpected"} : Step(a, "idle", Closed, FALSE, upd)
       \/ Step("TcpFails", "active", Closed, FALSE, upd)
       \/ Step("RecvOpenOk", "openConfirm", "open", FALSE, upd)
       \/ \E a \in {"Cease", "Collision"} : Step(a, "cease", Closed, FALSE, upd)

\* ------------------------------------------------------------- OpenConfirm
OpenConfirm ==
    /\ st = "openConfirm"
    /\ \/ \E a \in {"ManualStop", "AutomaticStop", "HoldTimerExpires", "KeepaliveSendFails", "RecvNotification",
                    "RecvMalformed", "RecvUnexpected", "RecvOpenBad"} : Step(a, "idle", Closed, FALSE, upd)
       \/ Step("RecvKeepalive", "established", "open", TRUE, upd)
       \/ \E a \in {"Cease", "Collision"} : Step(a, "cease", Closed, FALSE, upd)

\* ------------------------------------------------------------- Established
Established ==
    /\ st = "established"
    /\ \/ \E a \in {"ManualStop", "AutomaticStop", "HoldTimerExpires", "KeepaliveSendFails", "RecvNotification",
                    "RecvMalformed", "RecvUnexpected"} : Step(a, "idle", Closed, FALSE, upd)
       \/ Step("RecvUpdate", "established", "open", TRUE, IF upd < 2 THEN upd + 1 ELSE upd)
       \/ Step("Cease", "cease", Closed, FALSE, upd)

Next == IdleStart \/ IdleCease \/ ConnActive("connect") \/ ConnActive("active") \/ OpenSent \/ OpenConfirm \/ Established

Spec == Init /\ [][Next]_vars

\* ---------------------------------------------------------------- properties of the model itself
TypeOK == st \in States /\ conn \in Conns /\ att \in BOOLEAN /\ upd \in 0..2

\* routes are attached to the Loc-RIB exactly while the session is Established
AttachedIffEstablished == att <=> (st = "established")

\* every return to Idle from OpenSent, OpenConfirm or Established closes the connection
IdleClosesConnection == (st = "idle" /\ pst \in {"openSent", "openConfirm", "established"}) => conn = "closed"

\* UPDATEs are only processed in Established
UpdatesOnlyInEstablished == (act = "RecvUpdate") => (pst = "established" /\ st = "established")
=============================================================================
